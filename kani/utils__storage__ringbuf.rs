// Kani harnesses compiled inside rs-matter/src/utils/storage/ringbuf.rs (module `verif_kani`).

mod c18 {
    use super::*;

    impl<const N: usize> RingBuf<N> {
        /// Representation invariant of a ring (true of every state reachable through the API):
        /// storage is either untouched (never pushed: empty, cursors 0) or fully materialised;
        /// cursors are in range; an empty ring has `start == end`.
        pub(crate) fn c18_wf(&self) -> bool {
            (self.buf.len() == N || (self.buf.len() == 0 && !self.non_empty && self.start == 0 && self.end == 0))
                && self.start < N
                && self.end < N
                && (self.non_empty || self.start == self.end)
        }

        /// Abstract length: cyclic distance from `start` to `end`; the 0/N ambiguity is resolved by `non_empty`.
        pub(crate) fn c18_len(&self) -> usize {
            let d = if self.end >= self.start { self.end - self.start } else { N - self.start + self.end };
            if d == 0 && self.non_empty {
                N
            } else {
                d
            }
        }

        /// `view[i]` (requires a materialised ring and `i < N`).
        pub(crate) fn c18_at(&self, i: usize) -> u8 {
            let k = self.start + i;
            self.buf[if k >= N { k - N } else { k }]
        }

        /// An arbitrary materialised ring: arbitrary storage bytes, arbitrary cursors (caller assumes `c18_wf`).
        pub(crate) fn c18_any() -> Self {
            let arr: [u8; N] = kani::any();
            let mut v = crate::utils::storage::Vec::<u8, N>::new();
            unsafe {
                v.set_len(N);
            }
            v.as_mut_slice().copy_from_slice(&arr);
            RingBuf { buf: v, start: kani::any(), end: kani::any(), non_empty: kani::any() }
        }

        /// The never-pushed ring.
        pub(crate) fn c18_fresh() -> Self {
            RingBuf::new()
        }

        pub(crate) fn c18_storage_len(&self) -> usize {
            self.buf.len()
        }

        // -------------------------------------------------------------------------------------
        // Abstract FIFO model of a ring = the CONTRACT of push / pop / len / clear, used as stubs by
        // the BTP session harnesses (symbolic reads/writes inside the 3166-byte storage embedded in
        // `Session` do not close in CBMC; a stand-alone array indexed by view position does).
        //   view = C18_BASE[C18_POP .. C18_BASE_LEN] ++ C18_LOG[.. C18_LOG_LEN]
        // The `RingBuf` value itself is left untouched by the stubs. That the real implementation
        // refines this queue is what the twin harnesses c18_ring_* prove for all states of RingBuf<8>.
        // -------------------------------------------------------------------------------------

        /// Start a model whose view is `len` arbitrary bytes.
        pub(crate) fn c18_model_init(len: usize) {
            kani::assume(len <= N);
            kani::assert(N <= BASEN, "C18.ring.model_base_capacity_suffices");
            unsafe {
                C18_BASE = kani::any();
                C18_BASE_LEN = len;
                C18_POP = 0;
                C18_LOG_LEN = 0;
            }
        }

        /// View length.
        pub(crate) fn c18_mlen(&self) -> usize {
            unsafe { C18_BASE_LEN - C18_POP + C18_LOG_LEN }
        }

        /// `view[i]` (requires `i < c18_mlen()`).
        pub(crate) fn c18_mat(&self, i: usize) -> u8 {
            unsafe {
                let l = C18_BASE_LEN - C18_POP;
                if i < l {
                    C18_BASE[C18_POP + i]
                } else {
                    C18_LOG[i - l]
                }
            }
        }

        /// Contract of `push` for a slice that fits (the only way BTP pushes; asserted): `view' = view ++ data`.
        pub(crate) fn c18_push_log(&mut self, data: &[u8]) -> usize {
            kani::assert(data.len() <= N - self.c18_mlen(), "C18.ring.btp_push_always_fits");
            unsafe {
                kani::assert(C18_LOG_LEN + data.len() <= LOGN, "C18.ring.model_log_capacity_suffices");
                let mut k = 0;
                while k < data.len() {
                    C18_LOG[C18_LOG_LEN + k] = data[k];
                    k += 1;
                }
                C18_LOG_LEN += data.len();
            }
            self.c18_mlen()
        }

        /// Contract of `len` (`free` is the real code on top of it).
        pub(crate) fn c18_len_log(&self) -> usize {
            self.c18_mlen()
        }

        /// Contract of `pop`: moves `min(|out|, len)` bytes from the front of the view to `out`.
        pub(crate) fn c18_pop_model(&mut self, out: &mut [u8]) -> usize {
            unsafe {
                kani::assert(C18_LOG_LEN == 0, "C18.ring.model_pop_without_pending_log");
                let mut k = 0;
                while k < out.len() && C18_POP < C18_BASE_LEN {
                    out[k] = C18_BASE[C18_POP];
                    C18_POP += 1;
                    k += 1;
                }
                k
            }
        }

        /// Contract of `clear`.
        pub(crate) fn c18_clear_model(&mut self) {
            unsafe {
                C18_POP = C18_BASE_LEN;
                C18_LOG_LEN = 0;
            }
        }
    }

    /// State of the abstract FIFO model (see `c18_model_init`).
    const BASEN: usize = 3200;
    const LOGN: usize = 32;
    static mut C18_BASE: [u8; BASEN] = [0; BASEN];
    static mut C18_BASE_LEN: usize = 0;
    static mut C18_POP: usize = 0;
    static mut C18_LOG: [u8; LOGN] = [0; LOGN];
    static mut C18_LOG_LEN: usize = 0;

    const N: usize = 8;

    /// Every `RingBuf<8>` state satisfying the invariant: materialised (arbitrary storage and cursors) or fresh.
    fn any_ring(fresh: bool) -> RingBuf<N> {
        let rb = if fresh { RingBuf::<N>::c18_fresh() } else { RingBuf::<N>::c18_any() };
        kani::assume(rb.c18_wf());
        rb
    }

    /// Snapshot of the view (unrolled over the twin's capacity; entries past the length are 0).
    fn view(rb: &RingBuf<N>) -> ([u8; N], usize) {
        let l = rb.c18_len();
        let f = |i: usize| if i < l { rb.c18_at(i) } else { 0 };
        ([f(0), f(1), f(2), f(3), f(4), f(5), f(6), f(7)], l)
    }

    /// len / free / is_empty / is_full agree with the abstract view.
    // TIER: quick
    // KIND: complete
    #[kani::proof]
    fn c18_ring_len_free() {
        let rb = any_ring(kani::any());
        let l = rb.c18_len();
        kani::assert(l <= N, "C18.ring.view_len_le_capacity");
        kani::assert(rb.len() == l, "C18.ring.len_is_view_len");
        kani::assert(rb.free() == N - l, "C18.ring.free_is_capacity_minus_len");
        kani::assert(rb.is_empty() == (l == 0), "C18.ring.is_empty_iff_len_0");
        kani::assert(rb.is_full() == (l == N), "C18.ring.is_full_iff_len_capacity");
        kani::cover!(l == N, "full");
        kani::cover!(l == 0 && rb.c18_storage_len() == 0, "fresh");
        kani::cover!(l == 3 && rb.end < rb.start, "wrapped");
    }

    /// push(data): the new view is the last `min(N, len + |data|)` bytes of `view ++ data`; in
    /// particular when `|data| <= free` (the only way BTP calls it) nothing is dropped and the
    /// view is exactly `view ++ data`. All ring states; data of every length 0..=12 (> capacity).
    // TIER: quick
    // KIND: bounded (twin RingBuf<8>, all materialised states; pushed slice <= 12 bytes)
    #[kani::proof]
    #[kani::unwind(4)]
    fn c18_ring_push() {
        check_push(false);
    }

    /// Sanity of the abstract FIFO model used as contract stubs by the session harnesses: it is the
    /// queue the contracts above talk about (push appends, pop removes a prefix, clear empties).
    // TIER: quick
    // KIND: bounded (model of capacity 8; slices <= 8 bytes)
    #[kani::proof]
    #[kani::unwind(10)]
    fn c18_ring_queue_model() {
        let l0: usize = kani::any();
        RingBuf::<N>::c18_model_init(l0);
        let mut rb = RingBuf::<N>::new();
        let f = |i: usize| if i < l0 { rb.c18_mat(i) } else { 0 };
        let old = [f(0), f(1), f(2), f(3), f(4), f(5), f(6), f(7)];
        kani::assert(rb.c18_mlen() == l0 && rb.c18_len_log() == l0, "C18.ring.model_init_len");
        let data: [u8; N] = kani::any();
        let m: usize = kani::any();
        kani::assume(m <= N);
        let j: usize = kani::any();
        if kani::any() {
            kani::assume(m <= N - l0);
            let ret = rb.c18_push_log(&data[..m]);
            kani::assert(ret == l0 + m && rb.c18_mlen() == l0 + m, "C18.ring.model_push_len");
            if j < l0 + m {
                kani::assert(rb.c18_mat(j) == if j < l0 { old[j] } else { data[j - l0] }, "C18.ring.model_push_appends");
            }
            kani::cover!(m == 3 && l0 == 5, "model push fills");
        } else {
            let mut out = data;
            let ret = rb.c18_pop_model(&mut out[..m]);
            kani::assert(ret == if m < l0 { m } else { l0 } && rb.c18_mlen() == l0 - ret, "C18.ring.model_pop_len");
            if j < N {
                kani::assert(out[j] == if j < ret { old[j] } else { data[j] }, "C18.ring.model_pop_delivers_prefix");
            }
            if j < l0 - ret {
                kani::assert(rb.c18_mat(j) == old[ret + j], "C18.ring.model_pop_keeps_rest");
            }
            rb.c18_clear_model();
            kani::assert(rb.c18_mlen() == 0, "C18.ring.model_clear_empties");
            kani::cover!(ret == 3 && l0 == 5, "model partial pop");
        }
    }

    /// The same contract from the never-pushed state (storage is materialised by the first push).
    // TIER: quick
    // KIND: bounded (twin RingBuf<8>, fresh state; pushed slice <= 12 bytes)
    #[kani::proof]
    #[kani::unwind(10)]
    fn c18_ring_push_fresh() {
        check_push(true);
    }

    fn check_push(fresh: bool) {
        let mut rb = any_ring(fresh);
        const M: usize = 12;
        let data: [u8; M] = kani::any();
        let m: usize = kani::any();
        kani::assume(m <= M);
        let (old, old_len) = view(&rb);

        let ret = rb.push(&data[..m]);

        let total = old_len + m;
        let new_len = if total > N { N } else { total };
        let drop = total - new_len;
        kani::assert(rb.c18_wf(), "C18.ring.push_keeps_invariant");
        kani::assert(rb.c18_storage_len() == N, "C18.ring.push_materialises_storage");
        kani::assert(ret == new_len && rb.c18_len() == new_len && rb.len() == new_len, "C18.ring.push_len");
        kani::assert(rb.free() == N - new_len, "C18.ring.push_free");
        kani::assert(!(m <= N - old_len) || drop == 0, "C18.ring.push_that_fits_drops_nothing");
        let j: usize = kani::any();
        if j < new_len {
            let k = drop + j; // index into old ++ data
            let expect = if k < old_len { old[k] } else { data[k - old_len] };
            kani::assert(rb.c18_at(j) == expect, "C18.ring.push_view_is_suffix_of_old_then_data");
        }

        kani::cover!(fresh || (m > 0 && drop == 0 && old_len > 0), "append that fits");
        kani::cover!(fresh || (drop > 0 && drop < old_len), "oldest bytes dropped");
        kani::cover!(m > N, "slice longer than capacity");
        kani::cover!(m == 0, "empty slice");
        kani::cover!(old_len == 0 && m == 3, "push into empty");
    }

    /// pop(out): returns `min(|out|, len)`, copies the first bytes of the view in order, the rest
    /// of `out` is untouched, the new view is the old one without its first `ret` bytes.
    // TIER: quick
    // KIND: bounded (twin RingBuf<8>, all states; output slice <= 10 bytes)
    #[kani::proof]
    #[kani::unwind(4)]
    fn c18_ring_pop() {
        let mut rb = any_ring(kani::any());
        const K: usize = 10;
        let out0: [u8; K] = kani::any();
        let mut out = out0;
        let k: usize = kani::any();
        kani::assume(k <= K);
        let (old, old_len) = view(&rb);

        let ret = rb.pop(&mut out[..k]);

        kani::assert(ret == if k < old_len { k } else { old_len }, "C18.ring.pop_returns_min_of_room_and_len");
        kani::assert(rb.c18_wf(), "C18.ring.pop_keeps_invariant");
        kani::assert(rb.c18_len() == old_len - ret && rb.len() == old_len - ret, "C18.ring.pop_len");
        let i: usize = kani::any();
        kani::assume(i < K);
        if i < ret {
            kani::assert(out[i] == old[i], "C18.ring.pop_delivers_view_prefix_in_order");
        } else {
            kani::assert(out[i] == out0[i], "C18.ring.pop_leaves_rest_of_out_untouched");
        }
        let j: usize = kani::any();
        if j < old_len - ret {
            kani::assert(rb.c18_at(j) == old[ret + j], "C18.ring.pop_view_is_old_view_minus_prefix");
        }

        kani::cover!(ret > 0 && ret < old_len, "partial pop");
        kani::cover!(ret == old_len && old_len == N, "drain a full ring");
        kani::cover!(k > old_len, "out larger than content");
        kani::cover!(ret == 5 && old_len == 7, "wrapped pop");
    }

    /// pop_byte / push_byte: the single-byte forms (pop_byte is what `fetch_message` uses for the length prefix).
    // TIER: quick
    // KIND: complete
    #[kani::proof]
    #[kani::unwind(10)]
    fn c18_ring_byte_ops() {
        let mut rb = any_ring(kani::any());
        let (old, old_len) = view(&rb);
        if kani::any() {
            let r = rb.pop_byte();
            kani::assert(r.is_some() == (old_len > 0), "C18.ring.pop_byte_some_iff_non_empty");
            if let Some(b) = r {
                kani::assert(b == old[0], "C18.ring.pop_byte_is_first");
                kani::assert(rb.c18_len() == old_len - 1, "C18.ring.pop_byte_len");
                let j: usize = kani::any();
                if j < old_len - 1 {
                    kani::assert(rb.c18_at(j) == old[j + 1], "C18.ring.pop_byte_shifts_view");
                }
            } else {
                kani::assert(rb.c18_len() == 0, "C18.ring.pop_byte_none_keeps_empty");
            }
            kani::assert(rb.c18_wf(), "C18.ring.pop_byte_keeps_invariant");
            kani::cover!(r.is_some() && old_len == 1, "pop the last byte");
        } else {
            let b: u8 = kani::any();
            let ret = rb.push_byte(b);
            let new_len = if old_len == N { N } else { old_len + 1 };
            kani::assert(ret == new_len && rb.c18_len() == new_len, "C18.ring.push_byte_len");
            kani::assert(rb.c18_at(new_len - 1) == b, "C18.ring.push_byte_is_last");
            let j: usize = kani::any();
            if j < new_len - 1 {
                let src = if old_len == N { j + 1 } else { j };
                kani::assert(rb.c18_at(j) == old[src], "C18.ring.push_byte_keeps_or_shifts_view");
            }
            kani::assert(rb.c18_wf(), "C18.ring.push_byte_keeps_invariant");
            kani::cover!(old_len == N, "push_byte into a full ring");
        }
    }

    /// clear / new: empty view, invariant holds.
    // TIER: quick
    // KIND: complete
    #[kani::proof]
    fn c18_ring_clear_new() {
        let mut rb = any_ring(kani::any());
        rb.clear();
        kani::assert(rb.c18_wf() && rb.c18_len() == 0 && rb.len() == 0 && rb.free() == N, "C18.ring.clear_empties");
        let f = RingBuf::<N>::new();
        kani::assert(f.c18_wf() && f.c18_len() == 0 && f.free() == N && f.is_empty(), "C18.ring.new_is_empty");
    }
}
