// Kani harnesses compiled inside rs-matter/src/utils/storage/ringbuf.rs (module `verif_kani`).
