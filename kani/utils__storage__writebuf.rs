// Kani harnesses compiled inside rs-matter/src/utils/storage/writebuf.rs (module `verif_kani`).
