// Kani harnesses compiled inside rs-matter/src/utils/storage/writebuf.rs (module `verif_kani`).

mod c17 {
    use super::*;

    /// Largest buffer considered (the slice length is symbolic in `0..=N`).
    const N: usize = 24;
    /// Largest source slice considered by the slice-taking primitives.
    const S: usize = 9;

    /// Representation invariant: `start..end` is the written window, `end..buf_size` the free
    /// room, `buf_size` the logical end of the backing slice.
    fn inv(wb: &WriteBuf) -> bool {
        wb.start <= wb.end && wb.end <= wb.buf_size && wb.buf_size <= wb.buf.len()
    }

    fn any_wb(arr: &mut [u8; N]) -> WriteBuf<'_> {
        let len: usize = kani::any();
        kani::assume(len <= N);
        let start: usize = kani::any();
        let end: usize = kani::any();
        let buf_size: usize = kani::any();
        kani::assume(start <= end && end <= buf_size && buf_size <= len);
        WriteBuf {
            buf: &mut arr[..len],
            buf_size,
            start,
            end,
        }
    }

    /// Contract shared by every fixed-width `le_*` writer.
    fn append_scalar_contract(which: u8) {
        let mut arr: [u8; N] = kani::any();
        let before = arr;
        let mut wb = any_wb(&mut arr);
        let (len, bs, st, en) = (wb.buf.len(), wb.buf_size, wb.start, wb.end);
        let v: u64 = kani::any();

        let (k, r) = match which {
            1 => (1usize, wb.le_u8(v as u8)),
            2 => (2, wb.le_u16(v as u16)),
            4 => (4, wb.le_u32(v as u32)),
            8 => (8, wb.le_u64(v)),
            11 => (1, wb.le_i8(v as i8)),
            12 => (2, wb.le_i16(v as i16)),
            14 => (4, wb.le_i32(v as i32)),
            _ => (8, wb.le_i64(v as i64)),
        };

        // little-endian: byte j of the field carries bits 8j..8j+7 of the value
        let le = v.to_le_bytes();
        // there is room for k more bytes before the logical end
        let fits = bs - en >= k;

        kani::assert(r.is_ok() == fits, "C17.writebuf.scalar.ok_iff_fits");
        if let Err(e) = &r {
            kani::assert(e.code() == ErrorCode::NoSpace, "C17.writebuf.scalar.err_is_nospace");
        }
        kani::assert(
            wb.start == st && wb.buf_size == bs && wb.buf.len() == len,
            "C17.writebuf.scalar.frame_cursors"
        );
        kani::assert(wb.end == if fits { en + k } else { en }, "C17.writebuf.scalar.tail_advances_by_width");
        kani::assert(inv(&wb), "C17.writebuf.scalar.invariant_kept");
        let i: usize = kani::any();
        kani::assume(i < len);
        if fits && i >= en && i < en + k {
            kani::assert(wb.buf[i] == le[i - en], "C17.writebuf.scalar.bytes_little_endian");
        } else {
            // a refusal writes nothing, a success writes nothing outside `en..en+k`
            kani::assert(wb.buf[i] == before[i], "C17.writebuf.scalar.frame_bytes");
        }

        kani::cover!(fits && en > st && bs < len, "fits, non-empty window, shrunk buffer");
        kani::cover!(k == 1 || (!fits && bs > en), "partial room only (impossible for a 1-byte field)");
        kani::cover!(!fits && bs == en, "full");
        kani::cover!(fits && bs - en == k, "exact fit");
    }

    // TIER: quick
    // KIND: bounded (buffer length <= 24 bytes; the code is loop-free)
    #[kani::proof]
    fn c17_writebuf_le_u8() {
        append_scalar_contract(1);
    }

    // TIER: quick
    // KIND: bounded (buffer length <= 24 bytes; the code is loop-free)
    #[kani::proof]
    fn c17_writebuf_le_u16() {
        append_scalar_contract(2);
    }

    // TIER: quick
    // KIND: bounded (buffer length <= 24 bytes; the code is loop-free)
    #[kani::proof]
    fn c17_writebuf_le_u32() {
        append_scalar_contract(4);
    }

    // TIER: quick
    // KIND: bounded (buffer length <= 24 bytes; the code is loop-free)
    #[kani::proof]
    fn c17_writebuf_le_u64() {
        append_scalar_contract(8);
    }

    // TIER: quick
    // KIND: bounded (buffer length <= 24 bytes; the code is loop-free)
    #[kani::proof]
    fn c17_writebuf_le_signed() {
        let w: u8 = kani::any();
        kani::assume(w == 11 || w == 12 || w == 14 || w == 18);
        append_scalar_contract(w);
    }

    // TIER: quick
    // KIND: bounded (buffer length <= 24 bytes, source slice <= 9 bytes; the code is loop-free)
    #[kani::proof]
    fn c17_writebuf_append_slice() {
        let mut arr: [u8; N] = kani::any();
        let before = arr;
        let mut wb = any_wb(&mut arr);
        let (len, bs, st, en) = (wb.buf.len(), wb.buf_size, wb.start, wb.end);
        let src_arr: [u8; S] = kani::any();
        let k: usize = kani::any();
        kani::assume(k <= S);
        let src = &src_arr[..k];

        let r = if kani::any() { wb.append(src) } else { wb.copy_from_slice(src) };

        let fits = bs - en >= k;
        kani::assert(r.is_ok() == fits, "C17.writebuf.append.ok_iff_fits");
        if let Err(e) = &r {
            kani::assert(e.code() == ErrorCode::NoSpace, "C17.writebuf.append.err_is_nospace");
        }
        kani::assert(
            wb.start == st && wb.buf_size == bs && wb.buf.len() == len,
            "C17.writebuf.append.frame_cursors"
        );
        kani::assert(wb.end == if fits { en + k } else { en }, "C17.writebuf.append.tail_advances_by_len");
        kani::assert(inv(&wb), "C17.writebuf.append.invariant_kept");
        let i: usize = kani::any();
        kani::assume(i < len);
        if fits && i >= en && i < en + k {
            kani::assert(wb.buf[i] == src_arr[i - en], "C17.writebuf.append.bytes_copied");
        } else {
            kani::assert(wb.buf[i] == before[i], "C17.writebuf.append.frame_bytes");
        }

        kani::cover!(fits && k == S, "longest source fits");
        kani::cover!(fits && k == 0, "empty source");
        kani::cover!(!fits && bs > en, "partial room only");
    }

    // TIER: quick
    // KIND: bounded (buffer length <= 24 bytes, source slice <= 9 bytes; the code is loop-free)
    #[kani::proof]
    fn c17_writebuf_prepend() {
        let mut arr: [u8; N] = kani::any();
        let before = arr;
        let mut wb = any_wb(&mut arr);
        let (len, bs, st, en) = (wb.buf.len(), wb.buf_size, wb.start, wb.end);
        let src_arr: [u8; S] = kani::any();
        let k: usize = kani::any();
        kani::assume(k <= S);

        let r = wb.prepend(&src_arr[..k]);

        // the reserved head room `0..start` holds k more bytes
        let fits = k <= st;
        kani::assert(r.is_ok() == fits, "C17.writebuf.prepend.ok_iff_headroom");
        if let Err(e) = &r {
            kani::assert(e.code() == ErrorCode::NoSpace, "C17.writebuf.prepend.err_is_nospace");
        }
        kani::assert(
            wb.end == en && wb.buf_size == bs && wb.buf.len() == len,
            "C17.writebuf.prepend.frame_cursors"
        );
        kani::assert(wb.start == if fits { st - k } else { st }, "C17.writebuf.prepend.start_moves_back_by_len");
        kani::assert(inv(&wb), "C17.writebuf.prepend.invariant_kept");
        let i: usize = kani::any();
        kani::assume(i < len);
        if fits && i >= st - k && i < st {
            kani::assert(wb.buf[i] == src_arr[i - (st - k)], "C17.writebuf.prepend.bytes_copied");
        } else {
            kani::assert(wb.buf[i] == before[i], "C17.writebuf.prepend.frame_bytes");
        }

        kani::cover!(fits && k == st && k > 0, "uses all head room");
        kani::cover!(!fits, "not enough head room");
    }

    // TIER: quick
    // KIND: bounded (buffer length <= 24 bytes; the code is loop-free; `reserve` argument is any usize)
    #[kani::proof]
    fn c17_writebuf_reserve() {
        let mut arr: [u8; N] = kani::any();
        let before = arr;
        let mut wb = any_wb(&mut arr);
        let (len, bs, st, en) = (wb.buf.len(), wb.buf_size, wb.start, wb.end);
        let n: usize = kani::any();

        let r = wb.reserve(n);

        // head room can only be reserved on a pristine buffer, and at most its size
        let pristine = st == 0 && en == 0 && bs == len;
        kani::assert(r.is_ok() == (pristine && n <= len), "C17.writebuf.reserve.ok_iff_pristine_and_fits");
        if let Err(e) = &r {
            kani::assert(
                e.code() == if pristine { ErrorCode::NoSpace } else { ErrorCode::Invalid },
                "C17.writebuf.reserve.err_code"
            );
            kani::assert(wb.start == st && wb.end == en, "C17.writebuf.reserve.refusal_changes_nothing");
        } else {
            kani::assert(wb.start == n && wb.end == n, "C17.writebuf.reserve.window_empty_at_n");
        }
        kani::assert(wb.buf_size == bs && wb.buf.len() == len, "C17.writebuf.reserve.frame_cursors");
        kani::assert(inv(&wb), "C17.writebuf.reserve.invariant_kept");
        let i: usize = kani::any();
        kani::assume(i < len);
        kani::assert(wb.buf[i] == before[i], "C17.writebuf.reserve.frame_bytes");

        kani::cover!(r.is_ok() && n == len && len > 0, "reserve everything");
        kani::cover!(pristine && n > len, "too much");
        kani::cover!(!pristine, "not pristine");
    }

    // TIER: quick
    // KIND: bounded (buffer length <= 24 bytes; the code is loop-free)
    #[kani::proof]
    fn c17_writebuf_shrink_expand() {
        let mut arr: [u8; N] = kani::any();
        let before = arr;
        let mut wb = any_wb(&mut arr);
        let (len, bs, st, en) = (wb.buf.len(), wb.buf_size, wb.start, wb.end);
        let n: usize = kani::any();

        if kani::any() {
            // PRECONDITION (see report, observation O-1): `with` is a length of something that
            // exists in memory (<= isize::MAX); `shrink` computes `end + with` unchecked.
            kani::assume(n <= isize::MAX as usize);
            let r = wb.shrink(n);
            let ok = bs - en >= n;
            kani::assert(r.is_ok() == ok, "C17.writebuf.shrink.ok_iff_free_room");
            kani::assert(wb.buf_size == if ok { bs - n } else { bs }, "C17.writebuf.shrink.logical_end");
            kani::cover!(ok && n > 0, "shrunk");
            kani::cover!(!ok, "shrink refused");
        } else {
            let r = wb.expand(n);
            let ok = len - bs >= n;
            kani::assert(r.is_ok() == ok, "C17.writebuf.expand.ok_iff_backing_room");
            kani::assert(wb.buf_size == if ok { bs + n } else { bs }, "C17.writebuf.expand.logical_end");
            kani::cover!(ok && n > 0, "expanded");
            kani::cover!(!ok, "expand refused");
        }
        kani::assert(
            wb.start == st && wb.end == en && wb.buf.len() == len,
            "C17.writebuf.resize.frame_cursors"
        );
        kani::assert(inv(&wb), "C17.writebuf.resize.invariant_kept");
        let i: usize = kani::any();
        kani::assume(i < len);
        kani::assert(wb.buf[i] == before[i], "C17.writebuf.resize.frame_bytes");
    }

    // TIER: quick
    // KIND: bounded (buffer length <= 24 bytes; the code is loop-free)
    #[kani::proof]
    fn c17_writebuf_views_and_tail() {
        let mut arr: [u8; N] = kani::any();
        let before = arr;
        let mut wb = any_wb(&mut arr);
        let (len, bs, st, en) = (wb.buf.len(), wb.buf_size, wb.start, wb.end);
        let i: usize = kani::any();

        kani::assert(wb.get_start() == st && wb.get_tail() == en, "C17.writebuf.view.cursors");
        {
            let s = wb.as_slice();
            kani::assert(s.len() == en - st, "C17.writebuf.view.as_slice_len");
            if i < s.len() {
                kani::assert(s[i] == before[st + i], "C17.writebuf.view.as_slice_is_window");
            }
        }
        {
            let s = wb.as_mut_slice();
            kani::assert(s.len() == en - st, "C17.writebuf.view.as_mut_slice_len");
            if i < s.len() {
                kani::assert(s[i] == before[st + i], "C17.writebuf.view.as_mut_slice_is_window");
            }
        }
        {
            let s = wb.empty_as_mut_slice();
            kani::assert(s.len() == bs - en, "C17.writebuf.view.free_room_len");
            if i < s.len() {
                kani::assert(s[i] == before[en + i], "C17.writebuf.view.free_room_is_after_tail");
            }
        }

        // tail handling: going back to an anchor inside the window / forward inside the free room
        let t: usize = kani::any();
        if kani::any() {
            kani::assume(st <= t && t <= en); // PRECONDITION: an anchor obtained from `get_tail` earlier
            wb.rewind_tail_to(t);
            kani::assert(wb.end == t, "C17.writebuf.tail.rewind_sets_tail");
        } else {
            kani::assume(t <= bs - en); // PRECONDITION: bytes already produced into `empty_as_mut_slice`
            wb.forward_tail_by(t);
            kani::assert(wb.end == en + t, "C17.writebuf.tail.forward_adds");
        }
        kani::assert(
            wb.start == st && wb.buf_size == bs && wb.buf.len() == len,
            "C17.writebuf.tail.frame_cursors"
        );
        kani::assert(inv(&wb), "C17.writebuf.tail.invariant_kept");
        // and the views stay in range afterwards
        kani::assert(wb.as_slice().len() == wb.end - st, "C17.writebuf.tail.view_after");

        wb.reset();
        kani::assert(
            wb.start == 0 && wb.end == 0 && wb.buf_size == len && wb.buf.len() == len,
            "C17.writebuf.reset.pristine"
        );
        let j: usize = kani::any();
        kani::assume(j < len);
        kani::assert(wb.buf[j] == before[j], "C17.writebuf.view.frame_bytes");

        kani::cover!(en > st && bs > en && len > bs, "all regions non-empty");
        kani::cover!(en == st, "empty window");
    }

    // TIER: quick
    // KIND: bounded (buffer length <= 24 bytes; the code is loop-free)
    #[kani::proof]
    fn c17_writebuf_append_with_buf_and_split() {
        let mut arr: [u8; N] = kani::any();
        let before = arr;
        let mut wb = any_wb(&mut arr);
        let (len, bs, st, en) = (wb.buf.len(), wb.buf_size, wb.start, wb.end);
        let k: usize = kani::any();
        let fill: u8 = kani::any();
        let fail: bool = kani::any();

        // a producer that is handed exactly the free room and reports how much of it it used
        let r = wb.append_with_buf(|room| {
            kani::assert(room.len() == bs - en, "C17.writebuf.with_buf.room_is_free_room");
            if fail {
                return Err(ErrorCode::NoSpace.into());
            }
            kani::assume(k <= room.len()); // PRECONDITION on the producer
            if k > 0 {
                room[k - 1] = fill;
            }
            Ok(k)
        });
        kani::assert(r.is_ok() == !fail, "C17.writebuf.with_buf.propagates_producer_result");
        kani::assert(wb.end == if fail { en } else { en + k }, "C17.writebuf.with_buf.tail_advances_by_reported");
        kani::assert(
            wb.start == st && wb.buf_size == bs && wb.buf.len() == len,
            "C17.writebuf.with_buf.frame_cursors"
        );
        kani::assert(inv(&wb), "C17.writebuf.with_buf.invariant_kept");
        let i: usize = kani::any();
        if i < len {
            if !fail && k > 0 && i == en + k - 1 {
                kani::assert(wb.buf[i] == fill, "C17.writebuf.with_buf.producer_bytes_kept");
            } else {
                kani::assert(wb.buf[i] == before[i], "C17.writebuf.with_buf.frame_bytes");
            }
        }

        // split: head is everything up to the tail, the rest is a pristine buffer
        let end_now = wb.end;
        let (head, rest) = wb.split();
        kani::assert(head.len() == end_now, "C17.writebuf.split.head_is_up_to_tail");
        kani::assert(
            rest.start == 0 && rest.end == 0 && rest.buf_size == len - end_now && rest.buf.len() == len - end_now,
            "C17.writebuf.split.rest_is_pristine"
        );

        kani::cover!(!fail && k > 0 && k == bs - en, "producer fills the room");
        kani::cover!(fail, "producer fails");
    }

    // TIER: quick
    // KIND: bounded (buffer lengths <= 24 bytes; the code is loop-free)
    #[kani::proof]
    fn c17_writebuf_load() {
        let mut arr: [u8; N] = kani::any();
        let before = arr;
        let mut wb = any_wb(&mut arr);
        let (len, bs) = (wb.buf.len(), wb.buf_size);
        let (st, en) = (wb.start, wb.end);
        let mut arr2: [u8; N] = kani::any();
        let src_bytes = arr2;
        let src = any_wb(&mut arr2);
        let (sst, sen) = (src.start, src.end);

        let r = wb.load(&src);

        let fits = sen <= bs;
        kani::assert(r.is_ok() == fits, "C17.writebuf.load.ok_iff_fits");
        kani::assert(inv(&wb), "C17.writebuf.load.invariant_kept");
        kani::assert(wb.buf_size == bs && wb.buf.len() == len, "C17.writebuf.load.frame_size");
        let i: usize = kani::any();
        if fits {
            kani::assert(wb.start == sst && wb.end == sen, "C17.writebuf.load.cursors_copied");
            if i < sen {
                kani::assert(wb.buf[i] == src_bytes[i], "C17.writebuf.load.bytes_copied");
            } else if i < len {
                kani::assert(wb.buf[i] == before[i], "C17.writebuf.load.frame_bytes");
            }
        } else {
            kani::assert(wb.start == st && wb.end == en, "C17.writebuf.load.refusal_keeps_cursors");
            if i < len {
                kani::assert(wb.buf[i] == before[i], "C17.writebuf.load.refusal_keeps_bytes");
            }
        }

        kani::cover!(fits && sen > 0, "loaded");
        kani::cover!(!fits, "too large");
    }
}
