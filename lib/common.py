"""Shared paths and small helpers for the verification machinery (no third-party imports)."""
import fcntl
import hashlib
import json
import os
import subprocess
import sys
import time

VERIF = os.path.dirname(os.path.dirname(os.path.abspath(__file__)))
REPO = os.environ.get("VERIF_REPO", "/repo")
CRATE = os.path.join(REPO, "rs-matter")
SRC = os.path.join(CRATE, "src")
CACHE = os.environ.get("VERIF_CACHE_DIR", os.path.join(VERIF, ".cache"))
EVIDENCE = os.environ.get("VERIF_EVIDENCE_DIR", os.path.join(VERIF, "evidence"))
REPLAYS = os.path.join(os.environ["VERIF_EVIDENCE_DIR"], "replays") if "VERIF_EVIDENCE_DIR" in os.environ else os.path.join(VERIF, "replays")
KANI_DIR = os.environ.get("VERIF_KANI_DIR", os.path.join(VERIF, "kani"))
VERUS_DIR = os.path.join(VERIF, "verus")

EXIT_OK, EXIT_VIOLATION, EXIT_UNDECIDED = 0, 1, 2

# The feature set of the Kani build: what the workspace test build unifies into rs-matter
# (tests/Cargo.toml) minus `backtrace`/`if-addrs` (DESIGN P7), plus `case-resumption`.
KANI_FEATURES = (
    "std,async-io,critical-section/std,embassy-sync/std,embassy-time/std,rustcrypto,log,"
    "groups,persistent-subscriptions,max-groups-per-fabric-12,max-group-keys-per-fabric-3,"
    "max-group-endpoints-per-fabric-3,max-sessions-32,case-resumption"
)


def log(*a):
    print(*a, file=sys.stderr, flush=True)


def sha256_file(path):
    h = hashlib.sha256()
    with open(path, "rb") as f:
        for chunk in iter(lambda: f.read(1 << 16), b""):
            h.update(chunk)
    return h.hexdigest()


def sha256_text(s):
    return hashlib.sha256(s.encode()).hexdigest()


class Lock:
    """Exclusive advisory lock on a file under .cache (serialises the shared Kani build)."""

    def __init__(self, name):
        os.makedirs(CACHE, exist_ok=True)
        self.path = os.path.join(CACHE, name + ".lock")

    def __enter__(self):
        self.f = open(self.path, "w")
        fcntl.flock(self.f, fcntl.LOCK_EX)
        return self

    def __exit__(self, *a):
        fcntl.flock(self.f, fcntl.LOCK_UN)
        self.f.close()


def run(cmd, cwd=None, env=None, timeout=None, input=None):
    """Run a command, return (exit code or None on timeout, stdout, stderr, seconds)."""
    t0 = time.time()
    e = dict(os.environ)
    if env:
        e.update(env)
    try:
        p = subprocess.run(cmd, cwd=cwd, env=e, timeout=timeout, input=input,
                           stdout=subprocess.PIPE, stderr=subprocess.PIPE, text=True, errors="replace")
        return p.returncode, p.stdout, p.stderr, time.time() - t0
    except subprocess.TimeoutExpired as ex:
        out = ex.stdout.decode(errors="replace") if isinstance(ex.stdout, bytes) else (ex.stdout or "")
        err = ex.stderr.decode(errors="replace") if isinstance(ex.stderr, bytes) else (ex.stderr or "")
        return None, out, err, time.time() - t0


def write_json(path, obj):
    os.makedirs(os.path.dirname(path), exist_ok=True)
    tmp = path + ".tmp%d" % os.getpid()
    with open(tmp, "w") as f:
        json.dump(obj, f, indent=1, sort_keys=False)
        f.write("\n")
    os.replace(tmp, path)


def repo_head():
    rc, out, _, _ = run(["git", "-C", REPO, "rev-parse", "HEAD"])
    return out.strip() if rc == 0 else "unknown"


def repo_dirty():
    rc, out, _, _ = run(["git", "-C", REPO, "status", "--porcelain", "--untracked-files=no"])
    return [l for l in out.splitlines() if l.strip()]
