"""Track K: Kani/CBMC on the real rs-matter crate.

One shared `cargo kani --only-codegen` build of /repo's working tree (all harnesses, stable
compiler arguments, so cargo's own freshness check decides whether anything is rebuilt), then the
post-build pipeline of kani-driver 0.68 (goto-cc link, goto-instrument x3, cbmc --json-ui) is run
per selected harness. Running the pipeline ourselves is what allows per-property harness selection
without recompiling the crate (kani-driver passes `--harness` to the compiler, which costs a
3 minute rebuild per distinct harness set). `./verif selfcheck-driver` compares our verdicts with
kani-driver's on every harness.
"""
import glob
import json
import os
import re
import shutil
import time
from concurrent.futures import ThreadPoolExecutor

from common import (CACHE, CRATE, KANI_DIR, KANI_FEATURES, REPO, Lock, log, run, sha256_text)

TARGET = os.environ.get("VERIF_KANI_TARGET", os.path.join(CACHE, "kani-target"))
PLAYBACK_TARGET = os.environ.get("VERIF_KANI_PLAYBACK_TARGET", os.path.join(CACHE, "kani-playback"))
OUT_GLOB = os.path.join(TARGET, "kani", "x86_64-unknown-linux-gnu", "debug", "build", "rs-matter", "*", "out",
                        "*.kani-metadata.json")

DEV_SLOTS = "/scratch/slots"

CBMC_FLAGS = ["--no-malloc-may-fail", "--no-undefined-shift-check", "--no-signed-overflow-check", "--nan-check",
              "--no-self-loops-to-assumptions", "--no-pointer-primitive-check", "--object-bits", "16",
              "--sat-solver", "cadical"]

BUILD_ARGS = ["--only-codegen", "--target-dir", TARGET, "--no-default-features", "--features", KANI_FEATURES,
              "-Z", "function-contracts", "-Z", "stubbing"]


def kani_lib_c():
    c = sorted(glob.glob(os.path.expanduser("~/.kani/kani-*/library/kani/kani_lib.c")))
    if not c:
        raise RuntimeError("kani_lib.c not found under ~/.kani")
    return c[-1]


def kani_env():
    return {"CARGO_NET_OFFLINE": "true", "RS_MATTER_VERIF_DIR": KANI_DIR}


def build(timeout=3600):
    """Compile /repo's working tree with every harness. Returns dict(ok, seconds, log, harnesses)."""
    slot = None
    if os.path.isdir(DEV_SLOTS):
        # development only (the directory does not exist in a fresh sandbox): bound the number of concurrent
        # kani-compiler processes machine-wide (7-9 GB RSS each)
        import fcntl
        d, n = DEV_SLOTS, 2
        k = (int(os.environ.get("VERIF_BUILD_SLOT", "0")) if os.environ.get("VERIF_BUILD_SLOT") else os.getpid()) % int(n)
        slot = open(os.path.join(d, "slot%d" % k), "w")
        fcntl.flock(slot, fcntl.LOCK_EX)
    with Lock("kani-build-" + sha256_text(TARGET)[:8]):
        t0 = time.time()
        rc, out, err, secs = run(["cargo", "kani"] + BUILD_ARGS, cwd=CRATE, env=kani_env(), timeout=timeout)
        text = out + "\n" + err
        if rc != 0:
            return dict(ok=False, seconds=secs, log=text, harnesses={})
        metas = sorted(glob.glob(OUT_GLOB), key=os.path.getmtime)
        if not metas:
            return dict(ok=False, seconds=secs, log=text + "\nno kani-metadata.json produced", harnesses={})
        md = json.load(open(metas[-1]))
        hs = {}
        for h in md["proof_harnesses"]:
            hs[h["pretty_name"]] = h
        return dict(ok=True, seconds=time.time() - t0, log=text, harnesses=hs, metadata=metas[-1],
                    rebuilt=("Compiling rs-matter" in text))


def find_harness(harnesses, short):
    """Resolve a short harness name (function name, optionally with trailing module path)."""
    m = [k for k in harnesses if k == short or k.endswith("::" + short)]
    if len(m) == 1:
        return harnesses[m[0]]
    return None


_ID = re.compile(r"^\[(KANI_CHECK_ID_[^\]]+)\]\s*")


def _prop_class(prop):
    parts = prop.rsplit(".", 2)
    return parts[1] if len(parts) == 3 else "unknown"


def _loc(r):
    sl = r.get("sourceLocation") or {}
    f = sl.get("file", "")
    f = os.path.normpath(f) if f else ""
    # kani emits paths relative to the crate dir ("../../verif/kani/x.rs", "src/transport/dedup.rs")
    if f and not f.startswith("/"):
        for base in (CRATE, REPO):
            cand = os.path.normpath(os.path.join(base, f))
            if os.path.exists(cand):
                f = cand
                break
    return f, sl.get("line", ""), sl.get("function", "")


def concrete_values(trace):
    """The values CBMC assigned to every `kani::any()` in execution order, as little-endian bytes
    (the same extraction kani-driver performs for `--concrete-playback`)."""
    vals = []
    for s in trace:
        if s.get("stepType") != "assignment":
            continue
        lhs = s.get("lhs") or ""
        fn = (s.get("sourceLocation") or {}).get("function") or ""
        v = s.get("value") or {}
        if lhs.startswith("goto_symex$$return_value") and fn.startswith("kani::any_raw_") and v.get("binary"):
            b = v["binary"]
            if len(b) % 8:
                continue
            by = [int(b[i:i + 8], 2) for i in range(0, len(b), 8)]
            by.reverse()
            vals.append(dict(bytes=by, interp=str(v.get("data"))))
    return vals


def named_locals(trace, function_suffix):
    """Last value assigned to each named local of the harness function (for human-readable reports)."""
    out = {}
    for s in trace:
        if s.get("stepType") != "assignment":
            continue
        fn = (s.get("sourceLocation") or {}).get("function") or ""
        lhs = s.get("lhs") or ""
        if fn.endswith(function_suffix) and re.match(r"^[a-z_][a-z0-9_]*$", lhs) and not lhs.startswith("var_"):
            d = (s.get("value") or {}).get("data")
            if d is not None:
                out[lhs] = str(d)
    return out


def reduce_trace_json(path, fn_suffix, max_step_bytes=1 << 20):
    """CBMC's --json-ui output with every counterexample trace cut down to the steps `concrete_values` and
    `named_locals` read. The file is pretty-printed one key per line, so it is processed line by line, never loaded:
    a trace array opens with `<indent>"trace": [`, its steps are the objects one level deeper."""
    out = []
    in_trace = False
    ind = None
    step = None
    step_bytes = 0
    kept = 0
    first = True
    with open(path, errors="replace") as f:
        for line in f:
            if not in_trace:
                st = line.lstrip(" ")
                if st.startswith('"trace": ['):
                    if st.rstrip().endswith("]") or st.rstrip().endswith("],"):
                        out.append(line)
                        continue
                    in_trace = True
                    ind = len(line) - len(st)
                    first = True
                    out.append(line)
                else:
                    out.append(line)
                continue
            n = len(line) - len(line.lstrip(" "))
            if step is None:
                if n == ind and line.strip() in ("]", "],"):
                    in_trace = False
                    out.append(line)
                elif n == ind + 2 and line.strip() == "{":
                    step = [line]
                    step_bytes = len(line)
                continue
            if n == ind + 2 and line.strip() in ("}", "},"):
                if step_bytes <= max_step_bytes:
                    txt = "".join(step)
                    if '"assignment"' in txt and ("kani::any_raw_" in txt or fn_suffix in txt):
                        out.append(("" if first else ",\n") + txt + " " * (ind + 2) + "}")
                        first = False
                        kept += 1
                step = None
                continue
            step_bytes += len(line)
            if step_bytes <= max_step_bytes:
                step.append(line)
    # a kept step is emitted without its trailing comma; separators are added above
    return "".join(out)


import threading
_PARSE_LOCK = threading.Lock()


def run_harness(h, workdir, timeout=600, trace=False):
    """Run one harness through the kani-driver pipeline. Returns a result dict."""
    os.makedirs(workdir, exist_ok=True)
    name = h["pretty_name"]
    out = os.path.join(workdir, re.sub(r"[^A-Za-z0-9_]", "_", name) + (".trace" if trace else "") + ".out")
    t0 = time.time()
    steps = [
        ["goto-cc", h["goto_file"], kani_lib_c(), "-o", out],
        ["goto-cc", out, "--function", h["mangled_name"], "-o", out],
        ["goto-instrument", "--add-library", "--no-malloc-may-fail", out, out],
        ["goto-instrument", "--generate-function-body-options", "assert-false-assume-false",
         "--generate-function-body", ".*", "--drop-unused-functions", out, out],
        ["goto-instrument", "--ensure-one-backedge-per-target", out, out],
    ]
    for s in steps:
        rc, so, se, _ = run(s, timeout=timeout)
        if rc != 0:
            return dict(harness=name, status="undecided", reason="%s failed (rc=%s): %s" % (s[0], rc, (so + se)[-2000:]),
                        checks=[], seconds=time.time() - t0, cbmc_cmd="")
    cmd = ["cbmc"] + CBMC_FLAGS
    uw = (h.get("attributes") or {}).get("unwind_value")
    if uw is not None:
        cmd += ["--unwind", str(uw)]
    cmd += ["--trace"] if trace else ["--slice-formula"]
    cmd += [out, "--json-ui"]
    launch = cmd
    if os.environ.get("VERIF_CBMC_MEM_GB"):
        launch = ["bash", "-c", "ulimit -v %d; exec \"$@\"" % (int(os.environ["VERIF_CBMC_MEM_GB"]) << 20), "cbmc-limited"] + cmd
    gate = None
    if os.path.isdir(DEV_SLOTS):
        # development only: a machine-wide bound on concurrent CBMC processes (several GB each)
        import fcntl, random
        d = DEV_SLOTS
        try:
            nslots = int(open(os.path.join(d, "cbmc.max")).read())
        except (OSError, ValueError):
            nslots = 4
        order = list(range(nslots))
        random.shuffle(order)
        while gate is None:
            for k in order:
                f = open(os.path.join(d, "cbmc%d" % k), "w")
                try:
                    fcntl.flock(f, fcntl.LOCK_EX | fcntl.LOCK_NB)
                    gate = f
                    break
                except OSError:
                    f.close()
            if gate is None:
                time.sleep(2)
    if trace:
        # a counterexample trace of a large harness can be gigabytes of JSON: keep it out of memory unless it is small
        import subprocess
        tf = out + ".json"
        t1 = time.time()
        try:
            with open(tf, "wb") as fo:
                p = subprocess.run(launch, stdout=fo, stderr=subprocess.PIPE, timeout=timeout)
            rc, se = p.returncode, p.stderr.decode(errors="replace")
        except subprocess.TimeoutExpired:
            rc, se = None, ""
        secs = time.time() - t1
        size = os.path.getsize(tf) if os.path.exists(tf) else 0
        if size > int(os.environ.get("VERIF_MAX_TRACE_MB", "400")) << 20:
            # read it as a stream and keep only the steps the replay needs (kani::any() results, harness locals)
            try:
                so = reduce_trace_json(tf, name.rsplit("::", 1)[-1])
            except Exception as ex:  # noqa
                so = ""
                se += "\ntrace output too large to load (%d MB) and not reducible: %r" % (size >> 20, ex)
        else:
            so = open(tf, errors="replace").read() if size else ""
        try:
            os.remove(tf)
        except OSError:
            pass
    else:
        rc, so, se, secs = run(launch, timeout=timeout)
    if gate is not None:
        gate.close()
    res = dict(harness=name, seconds=time.time() - t0, cbmc_seconds=secs, cbmc_cmd=" ".join(cmd), checks=[],
               unwind=uw, stubs=(h.get("attributes") or {}).get("stubs") or [])
    try:
        os.remove(out)
    except OSError:
        pass
    if rc is None:
        res.update(status="undecided", reason="cbmc timed out after %ds" % timeout)
        return res
    # CBMC's JSON for a harness over the BTP session or the session table is hundreds of MB; parsed it is several GB.
    # One harness is parsed at a time (the solver runs stay parallel), and only the result list is kept.
    with _PARSE_LOCK:
        try:
            doc = json.loads(so)
        except Exception as ex:  # noqa
            res.update(status="undecided", reason="cbmc output not JSON (rc=%s): %s %s" % (rc, so[-500:], se[-500:]))
            return res
        del so
        results = None
        msgs = []
        for o in doc:
            if isinstance(o, dict) and "result" in o:
                results = o["result"]
            elif isinstance(o, dict) and o.get("messageType") == "ERROR":
                msgs.append(o.get("messageText", ""))
        del doc
    if results is None:
        res.update(status="undecided", reason="cbmc produced no result (rc=%s): %s" % (rc, " | ".join(msgs)[-1500:]))
        return res

    reach = {}
    for r in results:
        if _prop_class(r["property"]) == "reachability_check":
            # cover-style: FAILURE means the assertion it guards is reachable
            reach[r["description"].strip()] = (r["status"] == "FAILURE")
    checks = []
    for r in results:
        cls = _prop_class(r["property"])
        if cls == "reachability_check":
            continue
        desc = r["description"]
        m = _ID.match(desc)
        cid = None
        if m:
            cid = m.group(1)
            desc = desc[m.end():]
        f, line, fn = _loc(r)
        st = r["status"]
        if cls == "cover":
            verdict = "satisfied" if st == "FAILURE" else "unsatisfiable"
        elif st == "SUCCESS":
            verdict = "discharged"
            if cid is not None and reach.get(cid) is False:
                verdict = "unreachable"
        elif st == "FAILURE":
            if cls == "unwind" or ".unwind." in r["property"]:
                verdict = "unwind-insufficient"
            elif cls in ("unsupported_construct",) or "is not currently supported by Kani" in desc:
                verdict = "unsupported"
            else:
                verdict = "refuted"
        else:
            verdict = "undetermined"
        c = dict(name=desc, property=r["property"], cls=cls, verdict=verdict, file=f, line=line, function=fn)
        if verdict == "refuted" and r.get("trace"):
            c["concrete_values"] = concrete_values(r["trace"])
            c["locals"] = named_locals(r["trace"], name)
        checks.append(c)
    res["checks"] = checks
    verdicts = {c["verdict"] for c in checks if c["cls"] != "cover"}
    if "refuted" in verdicts:
        res["status"] = "failed"
    elif verdicts & {"unwind-insufficient", "unsupported", "undetermined"}:
        res["status"] = "undecided"
        res["reason"] = "; ".join(sorted("%s: %s @%s:%s" % (c["verdict"], c["name"], c["file"], c["line"])
                                         for c in checks if c["verdict"] in ("unwind-insufficient", "unsupported", "undetermined")))[:1500]
    else:
        res["status"] = "ok"
    return res


def run_many(hs, workdir, timeout, jobs=None):
    # CBMC needs 1-5 GB per harness here: 6 in parallel stays well inside a 62 GB machine
    jobs = jobs or min(len(hs), int(os.environ.get("VERIF_JOBS", "6"))) or 1
    with ThreadPoolExecutor(max_workers=jobs) as ex:
        return list(ex.map(lambda h: run_harness(h, workdir, timeout), hs))


def playback_test_text(fn_name, test_name, vals):
    rows = "".join("        vec![%s],\n" % ", ".join(str(b) for b in v["bytes"]) for v in vals)
    return ("\n#[test]\nfn %s() {\n    let concrete_vals: Vec<Vec<u8>> = vec![\n%s    ];\n"
            "    kani::concrete_playback_run(concrete_vals, %s);\n}\n" % (test_name, rows, fn_name))


def playback(h, vals, timeout=3600):
    """Execute the real code natively on the counterexample: the harness function is run by
    `cargo kani playback` with `kani::any()` returning the recorded values.
    Returns dict(executed, reproduced, message, output)."""
    src = h["original_file"]
    if os.path.dirname(os.path.abspath(src)) != os.path.abspath(KANI_DIR):
        return dict(executed=False, reproduced=False, message="harness file not under kani/", output="")
    fn = h["pretty_name"].split("::")[-1]
    # path of the function relative to the `verif_kani` module the file is included into
    parts = h["pretty_name"].split("::")
    rel = parts[parts.index("verif_kani") + 1:] if "verif_kani" in parts else [fn]
    test = "kani_concrete_playback_" + fn
    with Lock("kani-playback"):
        stage = os.path.join(CACHE, "playback-stage")
        shutil.rmtree(stage, ignore_errors=True)
        shutil.copytree(KANI_DIR, stage)
        with open(os.path.join(stage, os.path.basename(src)), "a") as f:
            f.write(playback_test_text("::".join(rel), test, vals))
        env = dict(CARGO_NET_OFFLINE="true", RS_MATTER_VERIF_DIR=stage, CARGO_TARGET_DIR=PLAYBACK_TARGET,
                   RUST_BACKTRACE="0")
        rc, so, se, secs = run(["cargo", "kani", "playback", "-Z", "concrete-playback", "-Z", "function-contracts",
                                "-Z", "stubbing", "--no-default-features", "--features", KANI_FEATURES, "--lib",
                                "--", test], cwd=CRATE, env=env, timeout=timeout)
        shutil.rmtree(stage, ignore_errors=True)
    text = so + "\n" + se
    ran = ("running 1 test" in text)
    failed = bool(re.search(r"test .*%s \.\.\. FAILED" % re.escape(test), text))
    msg = ""
    m = re.search(r"panicked at ([^\n]*)\n([^\n]*)", text)
    if m:
        msg = (m.group(1) + " " + m.group(2)).strip()
    return dict(executed=ran, reproduced=ran and failed, message=msg, output=text[-6000:], seconds=secs)
