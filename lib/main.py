#!/usr/bin/env python3
"""./verif — contract-based deductive verification of rs-matter (driver).

  verif setup                         pre-build the Kani dependency graph (offline)
  verif check <ID> [--tier quick|thorough]
  verif replay <replay.json>          re-execute a recorded counterexample on the real code
  verif list                          show registered harnesses / units per property
  verif selfcheck-driver [<ID>...]    compare our CBMC pipeline with kani-driver's verdicts

exit 0: every obligation discharged; exit 1 + "VIOLATION property=<id> replay=<path>": an obligation
refuted; exit 2: undecided (lost anchor, unsupported construct, time-out, compile error) - never an alarm.
"""
import json
import os
import re
import sys
import time

sys.path.insert(0, os.path.dirname(os.path.abspath(__file__)))

import kanitrack  # noqa: E402
import verustrack  # noqa: E402
from common import (CACHE, CRATE, EVIDENCE, EXIT_OK, EXIT_UNDECIDED, EXIT_VIOLATION, KANI_DIR, KANI_FEATURES, REPLAYS,  # noqa: E402
                    REPO, VERIF, log, repo_dirty, repo_head, write_json)
from registry import PROPS  # noqa: E402


def load_known():
    """known_findings.txt: `known: property=<id> obligation=<name> :: <what fails>` and
    `fixed: property=<id> <commit> <what failed>` lines. Never written at run time."""
    known, fixed = [], []
    p = os.path.join(VERIF, "known_findings.txt")
    if os.path.exists(p):
        for l in open(p):
            l = l.strip()
            if l.startswith("known:"):
                m = re.match(r"known:\s+property=(\S+)\s+obligation=(\S+)\s+::\s*(.*)", l)
                if m:
                    known.append(dict(property=m.group(1), obligation=m.group(2), what=m.group(3)))
            elif l.startswith("fixed:"):
                m = re.match(r"fixed:\s+property=(\S+)\s+(\S+)\s+(.*)", l)
                if m:
                    fixed.append(dict(property=m.group(1), commit=m.group(2), what=m.group(3)))
    return known, fixed


def scan_assumptions(files):
    """Mechanical scan for every assumption-introducing construct in the harness / unit texts."""
    pats = [r"kani::assume\(", r"#\[kani::stub", r"\bassume\(", r"\badmit\(", r"external_body", r"assume_specification",
            r"#\[verifier::", r"kani::unwind"]
    out = []
    for f in files:
        try:
            lines = open(f).read().splitlines()
        except OSError:
            continue
        for i, l in enumerate(lines, 1):
            if l.strip().startswith("//") and not l.strip().startswith("//@"):
                continue
            for p in pats:
                if re.search(p, l):
                    out.append("%s:%d: %s" % (os.path.relpath(f, VERIF), i, l.strip()[:140]))
                    break
    return out


def cmd_check(pid, tier, seed):
    t0 = time.time()
    if pid not in PROPS:
        log("unknown or unclaimed property", pid)
        return EXIT_UNDECIDED
    P = PROPS[pid]
    known, fixed = load_known()
    known = [k for k in known if k["property"] == pid]
    os.makedirs(REPLAYS, exist_ok=True)

    undecided = []      # reasons
    violations = []     # dicts(obligation, replay, note)
    kf_lines = []
    samples = []
    obligations = discharged = 0
    bounded_units = []
    b_oblig = b_disch = 0
    covers_sat = covers_total = 0
    functions = {}
    back_ends = {}
    cmds = []
    files_scanned = set()

    # ---------------------------------------------------------------- Track V
    vres = []
    for unit in P.get("verus", []):
        r = verustrack.run_unit(unit)
        vres.append(r)
        files_scanned.add(r.get("template", ""))
        back_ends["verus/z3:" + unit] = round(r.get("seconds", 0), 2)
        cmds.append(r.get("cmd", ""))
        for fn in r.get("functions", []):
            functions[fn["id"]] = fn
        if r["status"] == "undecided":
            undecided.append("verus unit %s: %s" % (unit, r.get("reason", "")))
        for ob in r.get("obligations", []):
            obligations += 1
            if ob["verdict"] == "discharged":
                discharged += 1
            samples.append(dict(obligation=ob["name"], back_end="verus", verdict=ob["verdict"], unit=unit))

    # ---------------------------------------------------------------- Track K
    hs_sel = [h for h in P.get("kani", []) if tier == "thorough" or h["tier"] == "quick"]
    kres = {}
    build = None
    if hs_sel:
        build = kanitrack.build()
        back_ends["kani-compiler build (shared, s)"] = round(build["seconds"], 1)
        cmds.append("cd %s && RS_MATTER_VERIF_DIR=%s cargo kani %s" % (CRATE, KANI_DIR, " ".join(kanitrack.BUILD_ARGS)))
        if not build["ok"]:
            tail = "\n".join(l for l in build["log"].splitlines() if "error" in l.lower())[-3000:]
            undecided.append("kani build failed (harness no longer compiles against the tree?):\n" + tail)
        else:
            metas, missing = [], []
            for h in hs_sel:
                m = kanitrack.find_harness(build["harnesses"], h["name"])
                if m is None:
                    missing.append(h["name"])
                else:
                    metas.append((h, m))
                    files_scanned.add(m["original_file"])
            if missing:
                undecided.append("harness(es) not found in build: " + ", ".join(missing))
            order = list(range(len(metas)))
            if seed:
                import random
                random.Random(seed).shuffle(order)
            metas = [metas[i] for i in order]
            workdir = os.path.join(CACHE, "run", "%s-%d" % (pid, os.getpid()))
            tmo = int(os.environ.get("VERIF_HARNESS_TIMEOUT", "900" if tier == "quick" else "3600"))
            results = kanitrack.run_many([m for _, m in metas], workdir, tmo)
            try:
                os.rmdir(workdir)
            except OSError:
                pass
            for (h, m), r in zip(metas, results):
                kres[h["name"]] = (h, m, r)

    cbmc_time = 0.0
    for name, (h, m, r) in kres.items():
        cbmc_time += r.get("cbmc_seconds", 0) or 0
        is_witness = h.get("expect") == "known-finding"
        bounded = h.get("kind") == "bounded"
        nchecks = [c for c in r["checks"] if c["cls"] != "cover"]
        cov = [c for c in r["checks"] if c["cls"] == "cover"]
        for c in nchecks:
            if c["file"].startswith(os.path.join(CRATE, "src")) and c["function"] and "verif_kani" not in c["function"]:
                fid = "%s @ %s" % (c["function"], os.path.relpath(c["file"], REPO))
                functions.setdefault(fid, dict(id=fid, back_end="kani"))
        if is_witness:
            refuted = [c for c in nchecks if c["verdict"] == "refuted"]
            names = {c["name"].replace(" ", "_") for c in refuted}
            listed = {k["obligation"] for k in known}
            if r["status"] == "failed" and names and names <= listed:
                for k in known:
                    if k["obligation"] in names:
                        kf_lines.append("KNOWN-FINDING: property=%s %s [%s, witness harness %s]" % (pid, k["what"], k["obligation"], name))
            elif r["status"] == "failed":
                for c in refuted:
                    if c["name"].replace(" ", "_") not in listed:
                        violations.append(dict(harness=name, meta=m, check=c, hspec=h))
            elif r["status"] == "ok":
                log("note: known-finding witness %s no longer fails (entry is stale)" % name)
            else:
                undecided.append("witness %s: %s" % (name, r.get("reason", r["status"])))
            continue
        if r["status"] == "undecided":
            undecided.append("harness %s: %s" % (name, r.get("reason", "")))
        # vacuity guard: the cover points recorded for this harness on the reference run (lib/expected.json) must be
        # satisfied; a shared check function may carry cover points that a small instance cannot reach - those were
        # unsatisfiable on the reference run as well and are not demanded
        # (a case-restricted harness - e.g. the hostile-peer cases of C18 - shares its check function with the general one and
        # reaches none of the shared cover points: its recorded list is empty and nothing is demanded; its own vacuity guard is
        # that every named obligation must be reachable, below)
        wanted_covers = None if h.get("covers") is None else set(h["covers"])
        unsat = [c for c in cov if c["verdict"] != "satisfied" and (wanted_covers is None or c["name"] in wanted_covers)]
        covers_total += len(cov)
        covers_sat += len(cov) - len(unsat)
        if unsat and r["status"] == "ok":
            undecided.append("harness %s: cover point(s) not satisfiable (vacuity guard): %s" % (name, "; ".join(c["name"] for c in unsat)))
        unreach = [c for c in nchecks if c["verdict"] == "unreachable" and c["name"] in set(h.get("obligations", []))]
        if unreach and r["status"] == "ok":
            undecided.append("harness %s: named obligation(s) unreachable (vacuous): %s" % (name, "; ".join(c["name"] for c in unreach)))
        wantc = set(h.get("covers") or [])
        havec = {c["name"] for c in cov}
        if wantc - havec and r["status"] != "undecided":
            undecided.append("harness %s: declared cover point(s) missing: %s" % (name, ", ".join(sorted(wantc - havec))))
        # declared named obligations must all be present
        want = set(h.get("obligations", []))
        have = {c["name"] for c in nchecks}
        if want - have and r["status"] != "undecided":
            undecided.append("harness %s: declared obligation(s) missing from the CBMC result: %s" % (name, ", ".join(sorted(want - have))))
        for c in nchecks:
            if c["verdict"] == "refuted":
                violations.append(dict(harness=name, meta=m, check=c, hspec=h))
        n_ok = sum(1 for c in nchecks if c["verdict"] in ("discharged", "unreachable"))
        if bounded:
            b_oblig += len(nchecks)
            b_disch += n_ok if r["status"] == "ok" else 0
            bounded_units.append(dict(harness=name, bound=h.get("bound", ""), result=r["status"], checks=len(nchecks), seconds=round(r["seconds"], 2)))
        else:
            obligations += len(nchecks)
            discharged += n_ok if r["status"] != "undecided" else 0
        named = [c for c in nchecks if re.match(r"^C\d\d\.", c["name"])]
        samples.append(dict(harness=name, back_end="kani/cbmc(cadical)", kind=h.get("kind", "complete"), bound=h.get("bound", ""),
                            status=r["status"], seconds=round(r["seconds"], 2), checks=len(nchecks),
                            named_obligations=[c["name"] + ":" + c["verdict"] for c in named],
                            auto_checks_in_repo_code=sum(1 for c in nchecks if "verif_kani" not in c["function"] and c["file"].startswith(CRATE)),
                            covers="%d/%d" % (len(cov) - len(unsat), len(cov))))
    back_ends["cbmc total (s)"] = round(cbmc_time, 1)

    # ---------------------------------------------------------------- Verus verdicts
    for r in vres:
        for ob in r.get("obligations", []):
            if ob["verdict"] != "refuted":
                continue
            twin = ob.get("kani_twin")
            if twin and twin in kres and kres[twin][2]["status"] == "ok":
                undecided.append("verus obligation %s fails but its complete Kani twin %s passes: proof maintenance, not a violation" % (ob["name"], twin))
            elif ob.get("layer") == "B":
                undecided.append("layer-B lemma %s fails (our proof, not their code)" % ob["name"])
            else:
                violations.append(dict(harness=None, verus=ob, unit=r["unit"]))

    # ---------------------------------------------------------------- Violations -> replay
    out_lines = []
    seen = set()
    replayed = 0
    traced = 0
    # cheapest refuted harness first: its counterexample is the one extracted and replayed natively
    violations.sort(key=lambda v: (kres[v["harness"]][2].get("seconds", 0) if v.get("harness") else -1))
    for v in violations:
        if v.get("harness"):
            c, m = v["check"], v["meta"]
            key = (v["harness"], c["name"], c["file"], c["line"])
            if key in seen:
                continue
            seen.add(key)
            slug = re.sub(r"[^A-Za-z0-9_.-]", "_", "%s-%s-%s" % (pid, v["harness"], c["name"]))[:120]
            path = os.path.join(REPLAYS, slug + ".json")
            rep = dict(property=pid, harness=m["pretty_name"], harness_file=m["original_file"], obligation=c["name"],
                       check_location="%s:%s" % (c["file"], c["line"]), check_function=c["function"], back_end="kani/cbmc",
                       repo_head=repo_head(), repo_dirty=repo_dirty())
            # counterexample: re-run with --trace (bounded number per run: traces of large harnesses are expensive)
            if traced < int(os.environ.get("VERIF_MAX_TRACES", "2")):
                traced += 1
                tr = kanitrack.run_harness(m, os.path.join(CACHE, "run", "trace-%d" % os.getpid()), timeout=1800, trace=True)
            else:
                tr = dict(checks=[], cbmc_cmd="(trace budget of this run used up; re-run the harness with `./verif kani-run --trace %s`)" % v["harness"])
            vals, locs = None, {}
            for tc in tr.get("checks", []):
                if tc["verdict"] == "refuted" and tc["name"] == c["name"] and tc["line"] == c["line"] and tc.get("concrete_values") is not None:
                    vals, locs = tc["concrete_values"], tc.get("locals", {})
                    break
            rep["verifier_output"] = dict(cbmc_cmd=tr.get("cbmc_cmd"), failed_checks=[
                dict(name=x["name"], property=x["property"], location="%s:%s" % (x["file"], x["line"])) for x in tr.get("checks", []) if x["verdict"] == "refuted"])
            suffix = ""
            if vals is None:
                rep["replay"] = dict(executed=False, note="CBMC produced no trace for this obligation" + ((": " + str(tr.get("reason"))[:600]) if tr.get("reason") else ""))
                suffix = " no-failing-input-found"
            else:
                rep["inputs"] = vals
                rep["harness_locals"] = locs
                if replayed < int(os.environ.get("VERIF_MAX_REPLAYS", "2")):
                    pb = kanitrack.playback(m, vals)
                    replayed += 1
                    rep["replay"] = pb
                    if not pb.get("reproduced"):
                        if m.get("attributes", {}).get("stubs"):
                            rep["replay"]["note"] = ("harness uses kani::stub (contract stubs are not applied in native playback); "
                                                     "counterexample recorded, native replay not conclusive")
                        suffix = " no-failing-input-found"
                else:
                    rep["replay"] = dict(executed=False, note="replay budget exhausted for this run; run ./verif replay <this file>")
            write_json(path, rep)
            out_lines.append("VIOLATION property=%s replay=%s obligation=%s harness=%s%s" % (pid, path, c["name"].replace(" ", "_"), v["harness"], suffix))
        else:
            ob = v["verus"]
            slug = re.sub(r"[^A-Za-z0-9_.-]", "_", "%s-verus-%s" % (pid, ob["name"]))[:120]
            path = os.path.join(REPLAYS, slug + ".json")
            write_json(path, dict(property=pid, back_end="verus", unit=v["unit"], obligation=ob["name"], verifier_output=ob.get("message", ""),
                                  repo_head=repo_head(), repo_dirty=repo_dirty(), replay=dict(executed=False, note="Verus yields no counterexample")))
            out_lines.append("VIOLATION property=%s replay=%s obligation=%s no-failing-input-found" % (pid, path, ob["name"].replace(" ", "_")))

    # ---------------------------------------------------------------- Evidence
    wall = time.time() - t0
    assumptions = list(P.get("assumptions", []))
    assumptions += ["Kani feature set: --no-default-features --features " + KANI_FEATURES + " (test configuration minus backtrace/if-addrs, plus case-resumption)"]
    assumptions += ["out of reach (not decided, not counted): " + x for x in P.get("out_of_reach", [])]
    scan = scan_assumptions(sorted(f for f in files_scanned if f))
    status = "violation" if out_lines else ("undecided" if undecided else "ok")
    ev = dict(
        property_id=pid, tier=tier, seed=seed,
        # a property whose units are all bounded stand-ins has no discharged (unbounded) obligation to report:
        # its evidence is then honestly labelled "other" (bounded contract checks), never "proof"
        level=("proof" if obligations > 0 else "other"),
        coverage=dict(
            obligations=obligations, discharged=discharged,
            checker_cmd=" ; ".join(c for c in cmds if c) + " ; per harness: goto-cc/goto-instrument + cbmc " + " ".join(kanitrack.CBMC_FLAGS) + " [--unwind N] --slice-formula <harness>.out --json-ui",
            trusted_base=P.get("trusted", []) + ["rustc/kani-compiler MIR->goto translation, CBMC 6.11 + CaDiCaL", "Verus 0.2026.09.13 + Z3 (Track V units)",
                                                "our replication of kani-driver's post-build pipeline (cross-checked by ./verif selfcheck-driver)"],
            samples=samples,
            functions_under_contract=sorted(functions.keys()) + P.get("functions", []),
            bounded_units=bounded_units, bounded_obligations=b_oblig, bounded_discharged=b_disch,
            cover_points_satisfied="%d/%d" % (covers_sat, covers_total),
            back_ends=back_ends,
            machine_arithmetic="bit-precise in both tracks (Kani: bit-level; Verus: overflow obligations on every executable operation); mathematical integers only in layer-B lemmas",
            mechanical_assumption_scan=scan,
            status=status, undecided_reasons=undecided, known_findings=kf_lines, fixed_findings=[f for f in fixed if f["property"] == pid],
            repo_head=repo_head(), repo_dirty=repo_dirty(),
            explanation=(P.get("scope", "") + ("" if obligations > 0 else " NOTE: every unit of this property that ran in this tier is a BOUNDED stand-in "
                         "(bound stated per harness under bounded_units); nothing is counted as proved.")),
        ),
        assumptions=assumptions, wall_s=round(wall, 2), violations=len(out_lines),
    )
    write_json(os.path.join(EVIDENCE, pid + ".json"), ev)

    for l in kf_lines:
        print(l)
    if out_lines:
        for l in out_lines:
            print(l)
        return EXIT_VIOLATION
    if undecided:
        for u in undecided:
            print("UNDECIDED property=%s %s" % (pid, u))
        return EXIT_UNDECIDED
    print("OK property=%s tier=%s obligations=%d discharged=%d bounded=%d/%d covers=%d/%d wall=%.1fs" % (
        pid, tier, obligations, discharged, b_disch, b_oblig, covers_sat, covers_total, wall))
    return EXIT_OK


def cmd_expect_update(pids):
    """dev: record, per harness, the named obligations and cover points a passing run must show."""
    import subprocess
    subprocess.run([sys.executable, os.path.join(VERIF, "tools", "gen_index.py"), "--all"], check=True, stdout=subprocess.DEVNULL)
    INDEX = json.load(open(os.path.join(VERIF, ".cache", "harness_index.all.json")))
    b = kanitrack.build()
    if not b["ok"]:
        print("build failed")
        return 2
    p = os.path.join(VERIF, "lib", "expected.json")
    exp = json.load(open(p)) if os.path.exists(p) else {}
    names = [n for n, h in sorted(INDEX.items()) if not pids or h["prop"] in pids or n in pids]
    metas = [(n, kanitrack.find_harness(b["harnesses"], n)) for n in names]
    missing = [n for n, m in metas if m is None]
    if missing:
        print("missing from build:", missing)
    metas = [(n, m) for n, m in metas if m is not None]
    tmo = int(os.environ.get("VERIF_HARNESS_TIMEOUT", "3600"))
    from concurrent.futures import ThreadPoolExecutor, as_completed
    wd = os.path.join(CACHE, "run", "expect-%d" % os.getpid())
    jobs = int(os.environ.get("VERIF_JOBS", "6"))
    with ThreadPoolExecutor(max_workers=jobs) as ex:
        futs = {ex.submit(kanitrack.run_harness, m, wd, tmo): n for n, m in metas}
        for fu in as_completed(futs):
            n = futs[fu]
            r = fu.result()
            ob = sorted({c["name"] for c in r["checks"] if c["cls"] != "cover" and re.match(r"^C\d\d\.", c["name"]) and c["verdict"] in ("discharged", "refuted")})
            cv = sorted({c["name"] for c in r["checks"] if c["cls"] == "cover" and c["verdict"] == "satisfied"})
            unre = sorted({c["name"] for c in r["checks"] if c["cls"] != "cover" and re.match(r"^C\d\d\.", c["name"]) and c["verdict"] == "unreachable"})
            bad = sorted({c["name"] + "@" + os.path.basename(c["file"]) + ":" + str(c["line"]) for c in r["checks"] if c["verdict"] in ("refuted", "unsatisfiable")})
            print("%-60s %-9s %6.1fs obligations=%d covers=%d%s%s%s" % (n, r["status"], r["seconds"], len(ob), len(cv),
                  (" UNREACHABLE:" + ",".join(unre)) if unre else "", (" " + r.get("reason", "")[:300]) if r["status"] == "undecided" else "",
                  (" BAD:" + ",".join(bad)[:600]) if bad else ""), flush=True)
            if r["status"] in ("ok", "failed"):
                exp[n] = dict(obligations=ob, covers=cv, seconds=round(r["seconds"], 1), status=r["status"])
                write_json(p, exp)
    write_json(p, exp)
    subprocess.run([sys.executable, os.path.join(VERIF, "tools", "gen_index.py")], check=True)
    return 0


def cmd_replay(path):
    rep = json.load(open(path))
    if rep.get("back_end") != "kani/cbmc" or "inputs" not in rep:
        print("replay file carries no concrete input (%s); verifier output:\n%s" % (rep.get("back_end"), json.dumps(rep.get("verifier_output"), indent=1)))
        return EXIT_UNDECIDED
    b = kanitrack.build()
    if not b["ok"]:
        print("build failed")
        return EXIT_UNDECIDED
    short = rep["harness"].split("::")[-1]
    m = kanitrack.find_harness(b["harnesses"], short)
    if m is None:
        print("harness not found:", rep["harness"])
        return EXIT_UNDECIDED
    pb = kanitrack.playback(m, rep["inputs"])
    print(pb["output"][-3000:])
    if pb["reproduced"]:
        print("REPRODUCED property=%s obligation=%s: %s" % (rep["property"], rep["obligation"], pb["message"]))
        return EXIT_VIOLATION
    print("NOT REPRODUCED on the current tree (executed=%s)" % pb["executed"])
    return EXIT_OK


def cmd_setup():
    os.makedirs(CACHE, exist_ok=True)
    os.makedirs(EVIDENCE, exist_ok=True)
    b = kanitrack.build()
    print("kani build ok=%s in %.0fs, %d harnesses" % (b["ok"], b["seconds"], len(b["harnesses"])))
    if not b["ok"]:
        print(b["log"][-4000:])
        return 1
    rc = verustrack.smoke()
    return rc


def cmd_list():
    for pid, P in sorted(PROPS.items()):
        print(pid, P.get("title", ""))
        for u in P.get("verus", []):
            print("   verus unit", u)
        for h in P.get("kani", []):
            print("   kani", h["tier"], h.get("kind", "complete"), h["name"], h.get("bound", ""))
    return 0


def cmd_selfcheck_driver(names):
    """Cross-check of our post-build pipeline: run kani-driver itself (`cargo kani --harness ...`, separate target
    dir because the harness selection changes the compiler arguments) on a sample of harnesses and compare, per
    harness, the overall verdict and the verdict of every named check with what our pipeline reports."""
    from common import run
    from registry import PROPS
    if not names:
        for pid, P in sorted(PROPS.items()):
            q = [h for h in P["kani"] if h["tier"] == "quick"]
            q.sort(key=lambda h: h.get("seconds") or 0)
            names += [h["name"] for h in q[:2]]
            names += [h["name"] for h in P["kani"] if h.get("expect") == "known-finding"][:1]
    b = kanitrack.build()
    if not b["ok"]:
        print("build failed")
        return 2
    metas = [kanitrack.find_harness(b["harnesses"], n) for n in names]
    metas = [m for m in metas if m is not None]
    ours = kanitrack.run_many(metas, os.path.join(CACHE, "run", "selfcheck"), 1800)
    tgt = os.environ.get("VERIF_DRIVER_TARGET", os.path.join(CACHE, "kani-driver-target"))
    args = ["--target-dir", tgt, "--no-default-features", "--features", KANI_FEATURES, "-Z", "function-contracts", "-Z", "stubbing",
            "--exact", "--output-format", "regular"]   # (`-j` would force the terse format, which does not list the checks)
    for m in metas:
        args += ["--harness", m["pretty_name"]]
    rc, so, se, secs = run(["cargo", "kani"] + args, cwd=CRATE, env=kanitrack.kani_env(), timeout=6 * 3600)
    text = so + se
    # split driver output per harness
    drv = {}
    blocks = re.split(r"Checking harness ", text)
    for bl in blocks[1:]:
        hn = bl.split("...")[0].strip()
        checks = {}
        for cm in re.finditer(r"Check \d+: [^\n]*\n\s*- Status: (\w+)\n\s*- Description: \"([^\"]*)\"", bl):
            if re.match(r"^C\d\d\.", cm.group(2)):
                checks[cm.group(2)] = cm.group(1)
        ver = "ok" if "VERIFICATION:- SUCCESSFUL" in bl else ("failed" if "VERIFICATION:- FAILED" in bl else "?")
        drv[hn] = (ver, checks)
    bad = 0
    for m, r in zip(metas, ours):
        n = m["pretty_name"]
        d = drv.get(n)
        if d is None:
            print("%-80s driver: no output" % n)
            bad += 1
            continue
        mism = []
        if d[0] != r["status"]:
            mism.append("overall driver=%s ours=%s" % (d[0], r["status"]))
        for c in r["checks"]:
            if c["cls"] != "cover" and c["name"] in d[1]:
                want = {"SUCCESS": "discharged", "FAILURE": "refuted", "UNREACHABLE": "unreachable"}.get(d[1][c["name"]], d[1][c["name"]])
                if want != c["verdict"]:
                    mism.append("%s driver=%s ours=%s" % (c["name"], d[1][c["name"]], c["verdict"]))
        print("%-80s %s named-checks-compared=%d %s" % (n, "AGREE" if not mism else "MISMATCH", len(d[1]), "; ".join(mism)))
        bad += 1 if mism else 0
    print("selfcheck-driver: %d harnesses, %d mismatches, driver run %.0fs" % (len(metas), bad, secs))
    return 0 if bad == 0 else 1


def cmd_kani_run(names, trace=False):
    """Development loop: build, run the named harnesses (substring match), print every check."""
    b = kanitrack.build()
    if not b["ok"]:
        errs = [l for l in b["log"].splitlines()]
        print("\n".join(errs[-120:]))
        print("BUILD FAILED")
        return 2
    print("build %.0fs rebuilt=%s harnesses=%d" % (b["seconds"], b.get("rebuilt"), len(b["harnesses"])))
    sel = [h for k, h in sorted(b["harnesses"].items()) if not names or any(n in k for n in names)]
    tmo = int(os.environ.get("VERIF_HARNESS_TIMEOUT", "900"))
    workdir = os.path.join(CACHE, "run", "dev-%d" % os.getpid())
    if trace:
        res = [kanitrack.run_harness(h, workdir, tmo, trace=True) for h in sel]
    else:
        res = kanitrack.run_many(sel, workdir, tmo)
    rc = 0
    for r in res:
        print("=== %s: %s (%.1fs, unwind=%s) %s" % (r["harness"], r["status"].upper(), r["seconds"], r.get("unwind"), r.get("reason", "")))
        n = 0
        for c in r["checks"]:
            interesting = c["verdict"] not in ("discharged", "satisfied") or re.match(r"^C\d\d\.", c["name"]) or c["cls"] == "cover"
            if c["verdict"] in ("discharged",) and not re.match(r"^C\d\d\.", c["name"]):
                n += 1
            if interesting:
                print("   %-14s %s  [%s:%s %s]" % (c["verdict"], c["name"], os.path.relpath(c["file"], "/") if c["file"] else "", c["line"], c["cls"]))
                if c.get("locals"):
                    print("        counterexample locals:", json.dumps(c["locals"]))
                if c.get("concrete_values") is not None and trace:
                    print("        any() values:", [v["interp"] for v in c["concrete_values"]])
        print("   (+%d automatic checks discharged)" % n)
        if r["status"] != "ok":
            rc = 1
    return rc


def main(argv):
    if len(argv) < 2:
        print(__doc__)
        return 2
    c = argv[1]
    if c == "setup":
        return cmd_setup()
    if c == "list":
        return cmd_list()
    if c == "check":
        pid = argv[2]
        tier = os.environ.get("VERIF_TIER", "quick")
        if "--tier" in argv:
            tier = argv[argv.index("--tier") + 1]
        seed = int(os.environ.get("VERIF_SEED", "0") or 0)
        return cmd_check(pid, tier, seed)
    if c == "kani-run":
        a = [x for x in argv[2:] if x != "--trace"]
        return cmd_kani_run(a, trace="--trace" in argv)
    if c == "expect-update":
        return cmd_expect_update(argv[2:])
    if c == "replay":
        return cmd_replay(argv[2])
    if c == "selfcheck-driver":
        return cmd_selfcheck_driver(argv[2:])
    print(__doc__)
    return 2


if __name__ == "__main__":
    sys.exit(main(sys.argv))
