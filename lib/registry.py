"""Registry: which units decide which property. Harness text lives in kani/*.rs, Verus units in
verus/*.rs. `kind=complete` = loop-free over the full symbolic domain, or unwound to a compile-time
capacity with unwinding assertions; `kind=bounded` = a bound we chose (never counted as proved)."""


def H(name, tier="quick", kind="complete", bound="", obligations=(), expect=None):
    return dict(name=name, tier=tier, kind=kind, bound=bound, obligations=list(obligations), expect=expect)


PROPS = {}

PROPS["C04"] = dict(
    title="A message counter is accepted at most once per secure peer; newer ones always",
    scope="Step contracts of RxCtrState::{new,post_recv} (unicast encrypted, unsecured, roll-over) and GroupCtrStore::post_recv "
          "for all states and all counters; every finite history follows by induction over the step contracts.",
    verus=["dedup"],
    kani=[
        H("c04_new_closes_window", obligations=["C04.new.closed_at_or_below_only", "C04.new.max"]),
        H("c04_post_recv_unicast_encrypted", obligations=[
            "C04.unicast.accept_iff_not_seen", "C04.unicast.refusal_changes_nothing", "C04.unicast.accepted_is_closed",
            "C04.unicast.closed_stays_closed", "C04.unicast.newer_always_accepted", "C04.unicast.older_than_window_refused",
            "C04.unicast.exact_window"]),
        H("c04_post_recv_unicast_unencrypted", obligations=[
            "C04.unsecured.restart_accepted", "C04.unsecured.restart_window", "C04.unsecured.same_as_encrypted_inside",
            "C04.unsecured.refusal_changes_nothing", "C04.unsecured.accepted_is_closed"]),
        H("c04_post_recv_rollover", obligations=[
            "C04.group.accept_iff_not_seen", "C04.group.refusal_changes_nothing", "C04.group.accepted_is_closed",
            "C04.group.newer_always_accepted", "C04.group.older_than_window_refused",
            "C04.group.closed_stays_closed_in_window", "C04.group.exact_window"]),
        H("c04_group_store_3", kind="bounded", bound="3 of 16 tracked group senders"),
        H("c04_group_store_full", tier="thorough"),
        H("c04_group_store_any_len", tier="thorough"),
    ],
    functions=[],
    trusted=[],
    out_of_reach=["the acknowledgement of a detected duplicate happens in async handle_rx_packet; only the cause (Err(Duplicate) exactly for refused counters) is under contract"],
    assumptions=[],
)
