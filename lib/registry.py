"""Registry: which units decide which property. Harness text lives in kani/*.rs, Verus units in
verus/*.rs. `kind=complete` = loop-free over the full symbolic domain, or unwound to a compile-time
capacity with unwinding assertions; `kind=bounded` = a bound we chose (never counted as proved)."""


def H(name, tier="quick", kind="complete", bound="", obligations=(), expect=None):
    return dict(name=name, tier=tier, kind=kind, bound=bound, obligations=list(obligations), expect=expect)


PROPS = {}

PROPS["C04"] = dict(
    title="A message counter is accepted at most once per secure peer; newer ones always",
    scope="Step contracts of RxCtrState::{new,post_recv} (unicast encrypted, unsecured, roll-over) and GroupCtrStore::post_recv "
          "for all states and all counters; every finite history follows by induction over the step contracts.",
    verus=["dedup"],
    functions=[],
    trusted=[],
    out_of_reach=["the acknowledgement of a detected duplicate happens in async handle_rx_packet; only the cause (Err(Duplicate) exactly for refused counters) is under contract"],
    assumptions=[],
)

PROPS["C12"] = dict(
    title="Durable counters never hand out the same value twice, across restarts too",
    scope="Layer A: each counter operation (check-in counter, global group data counter, event number) refines a transition of an abstract "
          "epoch machine over unbounded logical positions (Verus, on the extracted real bodies). Layer B: for every schedule of reservations, "
          "stores and restarts (restart after any event) the positions handed out strictly increase and each is below the durable boundary when used.",
    verus=["checkin", "groupctr", "events"],
    functions=[],
    trusted=["assumed contract: Persist::store_tlv (Ok => durable value is the argument, Err => unchanged)",
             "assumed contract: Sessions::get_or_init_global_group_data_ctr (random seed via Crypto)",
             "struct projections of Sessions / EventsInner to the fields the extracted functions touch (T7)"],
    out_of_reach=["that the application really performs the store the interface asks for (caller precondition of the layer-B machine)",
                  "KV-store failures between reserve and use (D9, outside the statement's quantifier)",
                  "counter horizons: 2^28-1 group counter positions, 2^32 check-in values, 2^64 event numbers (stated in the lemmas)"],
    assumptions=[],
)

PROPS["C16"] = dict(
    title="The TLV codec round-trips every value and rejects every malformed input safely",
    scope="Reader navigation core (TLVSequence::{control, tag*, value*, len, container_len, container_value_len, next_start, next_enter, "
          "container_next, current} + control/tag/type helpers) verified by Verus on the extracted real bodies for byte slices of ANY length: "
          "no panic, no overflow, no out-of-range access, returned slices are sub-ranges of the input, loops terminate (decreases).",
    verus=["tlvread"],
    functions=[],
    trusted=["assumed contract: TLVSequence::value_len (length-field decoding via try_into/from_le_bytes)", "assumed: TLVControl::parse is total",
             "derived Clone of TLVSequence returns an equal value; Self::EMPTY is the empty slice"],
    out_of_reach=["derive-generated FromTLV/ToTLV of wire structures (macro output)", "whole value trees; floats beyond bit patterns",
                  "inputs of 2 GiB or more (i32 nesting counter horizon, stated as precondition)"],
    assumptions=[],
)


# ---- harness lists come from lib/harness_index.json (tools/gen_index.py scans kani/*.rs) and the named
# ---- obligations each harness must discharge from lib/expected.json (./verif expect-update)
import json as _json
import os as _os

_here = _os.path.dirname(_os.path.abspath(__file__))


def _load(name):
    p = _os.path.join(_here, name)
    return _json.load(open(p)) if _os.path.exists(p) else {}


INDEX = _load("harness_index.json")
EXPECTED = _load("expected.json")
for _pid, _P in PROPS.items():
    _P["kani"] = []
for _name, _h in sorted(INDEX.items()):
    if _h["prop"] in PROPS:
        _e = EXPECTED.get(_name, {})
        PROPS[_h["prop"]]["kani"].append(dict(name=_name, tier=_h["tier"], kind=_h["kind"], bound=_h["bound"], expect=_h.get("expect"),
                                              obligations=_e.get("obligations", []), covers=_e.get("covers", [])))
