"""Registry: which units decide which property. Harness text lives in kani/*.rs, Verus units in
verus/*.rs. `kind=complete` = loop-free over the full symbolic domain, or unwound to a compile-time
capacity with unwinding assertions; `kind=bounded` = a bound we chose (never counted as proved)."""


def H(name, tier="quick", kind="complete", bound="", obligations=(), expect=None):
    return dict(name=name, tier=tier, kind=kind, bound=bound, obligations=list(obligations), expect=expect)


PROPS = {}

PROPS["C04"] = dict(
    title="A message counter is accepted at most once per secure peer; newer ones always",
    scope="Step contracts of RxCtrState::{new,post_recv} (unicast encrypted, unsecured, roll-over) and GroupCtrStore::post_recv "
          "for all states and all counters; every finite history follows by induction over the step contracts.",
    verus=["dedup"],
    functions=[],
    trusted=[],
    out_of_reach=["the acknowledgement of a detected duplicate happens in async handle_rx_packet; only the cause (Err(Duplicate) exactly for refused counters) is under contract"],
    assumptions=[],
)

PROPS["C12"] = dict(
    title="Durable counters never hand out the same value twice, across restarts too",
    scope="Layer A: each counter operation (check-in counter, global group data counter, event number) refines a transition of an abstract "
          "epoch machine over unbounded logical positions (Verus, on the extracted real bodies). Layer B: for every schedule of reservations, "
          "stores and restarts (restart after any event) the positions handed out strictly increase and each is below the durable boundary when used.",
    verus=["checkin", "groupctr", "events"],
    functions=[],
    trusted=["assumed contract: Persist::store_tlv (Ok => durable value is the argument, Err => unchanged)",
             "assumed contract: Sessions::get_or_init_global_group_data_ctr (random seed via Crypto)",
             "struct projections of Sessions / EventsInner to the fields the extracted functions touch (T7)"],
    out_of_reach=["that the application really performs the store the interface asks for (caller precondition of the layer-B machine)",
                  "KV-store failures between reserve and use (D9, outside the statement's quantifier)",
                  "counter horizons: 2^28-1 group counter positions, 2^32 check-in values, 2^64 event numbers (stated in the lemmas)"],
    assumptions=[],
)

PROPS["C16"] = dict(
    title="The TLV codec round-trips every value and rejects every malformed input safely",
    scope="Reader navigation core (TLVSequence::{control, tag*, value*, len, container_len, container_value_len, next_start, next_enter, "
          "container_next, current} + control/tag/type helpers) verified by Verus on the extracted real bodies for byte slices of ANY length: "
          "no panic, no overflow, no out-of-range access, returned slices are sub-ranges of the input, loops terminate (decreases).",
    verus=["tlvread"],
    functions=[],
    trusted=["assumed contract: TLVSequence::value_len (length-field decoding via try_into/from_le_bytes)", "assumed: TLVControl::parse is total",
             "derived Clone of TLVSequence returns an equal value; Self::EMPTY is the empty slice"],
    out_of_reach=["derive-generated FromTLV/ToTLV of wire structures (macro output)", "whole value trees; floats beyond bit patterns",
                  "inputs of 2 GiB or more (i32 nesting counter horizon, stated as precondition)"],
    assumptions=[],
)

PROPS["C05"] = dict(
    title="Access is granted exactly when the Matter access-control algorithm grants it",
    scope="Compositional: Access::is_ok, subject classification (node id / CAT identifier+version), AccessorSubjects::{add_catid,matches}, "
          "AclEntry::{match_accessor,match_access_desc,allow}, Fabric::allow (exists-entry), Fabrics::allow (PASE grant, own-fabric dispatch, "
          "non-existent fabric denied) each equal a reference predicate written from the statement, for all field values; callers are checked "
          "against callee contracts (stubs with ghost records). Fabric separation and mode separation are named corollaries.",
    verus=[],
    functions=[],
    trusted=["privilege values restricted to the six an entry can hold for the statement-level is_ok contract (robustness clauses for arbitrary bits)",
             "operation is READ or WRITE (the only values built at the three AccessReq::new call sites)",
             "fabric indices in the table are distinct (kept by add_with_post_init)"],
    out_of_reach=["Accessor::for_session (needs a Session value)", "group membership glue (Accessor::is_endpoint_accessible, AccessReq::allow) only bounded: <=1 fabric, <=2 groups x 2 endpoints"],
    assumptions=[],
)

PROPS["C06"] = dict(
    title="Every Interaction Model operation is mediated by the access check",
    scope="Gates: Cluster::{check_attr_access, check_cmd_access, check_event_access} return Ok only through exactly one access check about this very "
          "request, honour timed-only and fabric-scoped declarations and report the prescribed status otherwise (AccessReq::allow stubbed by its C05 "
          "contract). PathExpander step contracts are bounded stand-ins (small fixed node) and are not counted as proved.",
    verus=[],
    functions=[],
    trusted=["AccessReq::allow by contract (C05)", "callers pass ids taken from the cluster's own element lists (im/expand.rs:536, dm/types/node.rs:86,108)"],
    out_of_reach=["handler invocation, timed-window expiry, fabric-sensitive filtering (async IM layer)", "node composition changing between chunks"],
    assumptions=[],
)

PROPS["C09"] = dict(
    title="Reliable messaging delivers each message at most once and reports the truth",
    scope="Safety core as step contracts: RetransEntry::{new,pre_send} (budget: Ok iff attempts left, Err(TxTimeout) once used up, nothing else changes), "
          "ReliableMessage::{pre_send,post_recv,flags} (no success after give-up; an ack for another counter changes nothing; a matching ack clears the "
          "retransmission; a reliable message is acknowledged with exactly its counter), ExchangeState and Session::pre_send wrappers (retransmission "
          "reuses the stored counter and consumes none), back-off arithmetic and Session::rx_timeout_ms ladders. The back-off arithmetic is a Verus unit: "
          "backoff_ms equals the protocol formula with its integer floors, overflow-free up to 6 attempts, monotone in attempt number and jitter.",
    verus=["mrp"],
    functions=[],
    trusted=["embassy_time::Instant::now stubbed (time is a universally quantified input)", "RxCtrState window contract is C04's",
             "RetransEntry values outside mrp.rs are built through a layout-checked mirror struct"],
    out_of_reach=["delivery order / at-most-once at the application across two nodes, 'if one transmission and one ack get through the call succeeds', "
                  "timing of wait_tx, re-acknowledging received duplicates (async handle_rx_packet)"],
    assumptions=[],
)

PROPS["C10"] = dict(
    title="A message reaches only its own exchange, and the receive path never wedges",
    scope="Safety half as step contracts on ExchangeState::is_for_rx, MessageMeta kind predicates, Session::get_exch_for_rx and Session::post_recv over a "
          "5-slot exchange table built from fields: delivery only to the one live exchange with that id and the complementary role, which alone changes; "
          "a new exchange only for an admissible initiator message on a non-expired session, in a free slot, all other slots unchanged; the three refusals "
          "leave the table unchanged; duplicates are refused before any exchange is touched.",
    verus=[],
    functions=[],
    trusted=["uniqueness of (exchange id, side) per session is a stated invariant that post_recv is proved to preserve", "Instant::now stubbed"],
    out_of_reach=["accept-timeout / orphan sweeps and the dropped-exchange closer (need Matter + TransportRunner; did not close in CBMC)",
                  "'subsequent traffic keeps flowing', conditional async mutex hand-over, cancellation at await points"],
    assumptions=[],
)

PROPS["C03"] = dict(
    title="Secured messages are accepted only if authentic for that session and direction",
    scope="Header codecs (PlainHdr/ProtoHdr encode/decode round trip for every flag combination and field value; decoder totality on arbitrary bytes, "
          "bounded by header length), nonce layout sec_flags|counter|node id and its injectivity, and - with the AEAD primitive replaced by a recording "
          "mock under a stated ideal contract - what key, nonce and AAD the real encrypt/decrypt paths hand to the primitive: session dec/enc key, "
          "nonce from the received/sent flags+counter and the session's peer/local node id, AAD = the plain header bytes bit for bit; authentication "
          "failure => Err with the session unchanged; Session::is_for_rx equals the reference predicate.",
    verus=[],
    functions=[],
    trusted=["AEAD mock contract: decrypt(k,n,aad,ct|tag) is Ok only for the output of encrypt under the same key, nonce and AAD (AES-CCM itself is out of reach)",
             "RxCtrState is read through a layout-checked mirror struct"],
    out_of_reach=["AES-CCM", "group-key trial-decryption loop", "table-level Sessions::get_for_rx and TransportRunner::decode_packet (did not close; per-session frame proved instead)"],
    assumptions=[],
)

PROPS["C17"] = dict(
    title="Headers, onboarding payloads and discovery records decode what was encoded",
    scope="decode(encode(x)) == x and decoder totality for WriteBuf/ParseBuf primitives, SC StatusReport, base-38 (1- and 2-byte groups, encode_bits, all "
          "group decoders over every byte string), manual pairing code (ALL 10^11 eleven-digit strings: refused iff wrong Verhoeff digit / leading digit > 7 / "
          "inconsistent VID-PID flag / out-of-range digit group; spec-encoder round trip), QR bit packing and BitReader, BDX headers, BLE advertisement payloads.",
    verus=[],
    functions=[],
    trusted=["the verhoeff crate is kept as real code; its oracle is computed from the D5 definition"],
    out_of_reach=["QrPayload::parse on whole texts, 21-digit manual codes, compute_pairing_code (core::fmt), 3-byte base-38 groups through encode(&[u8]) - did not close",
                  "mDNS answer parsing, Matter<->X.509 conversion (unbounded, ASN.1)", "message/protocol headers are under C03, BTP headers under C18"],
    assumptions=[],
)

PROPS["C19"] = dict(
    title="A certificate chain is accepted exactly when it is valid under the Matter rules",
    scope="Decision logic of CertVerifier::{verify_usage, add_cert, finalise} and whole chains (with/without ICAC) against an oracle from the statement, "
          "for EVERY combination of parsed field values and every outcome of the primitives: certificates are parsed-form records behind stubbed "
          "accessors, signature verification is a mock. Result.is_ok() <=> oracle in both directions.",
    verus=[],
    functions=[],
    trusted=["certificate accessors (TLV field extraction) stubbed by arbitrary values - reader totality is C16", "ECDSA / DER / CertRef::encode (the signed TBS) assumed",
             "UtcTime seconds conversion assumed (same variant, arbitrary seconds)"],
    out_of_reach=["AddNOC/UpdateNOC specific gates inside FailSafe (public key == CSR key; fabric must not exist)", "soundness of ECDSA and of the Matter->X.509 re-encoding"],
    assumptions=[],
)

PROPS["C01"] = dict(
    title="CASE admits only holders of a valid NOC of the addressed fabric (gates only)",
    scope="Synchronous gates only: Case::validate_certs (Ok => NOC and ICAC fabric id are this fabric's and every chain step verified up to THIS fabric's root), "
          "Fabric::is_dest_id (Ok <=> HMAC == target) and Fabrics::get_by_dest_id (first matching fabric or none).",
    verus=[],
    functions=[],
    trusted=["crypto primitives are nondeterministic mocks", "certificate accessors stubbed (C19)"],
    out_of_reach=["Sigma1/2/3/Resume flows, transcript hashing, key schedule, tamper => no session, both ends same keys (async + cryptographic protocol properties)",
                  "validate_peer_tbs_signature (TLV writer byte loops did not close)"],
    assumptions=[],
)

PROPS["C02"] = dict(
    title="PASE admits only a peer that knows the passcode, only while a window is open (gates only)",
    scope="Synchronous gates only: Pase window open/close/timeout/failure accounting (revoked iff the twentieth failure; always clears the session marker; Busy when a "
          "window exists; InvalidCommand outside 180-900 s), commissionable mDNS record iff a window exists, Spake2P::setup_verifier refuses an invalid share "
          "before touching ke/ca/cb, Spake2P::verify Ok iff cA equal.",
    verus=[],
    functions=[],
    trusted=["crypto primitives are mocks", "Instant::now stubbed"],
    out_of_reach=["that a session appears only through handle_pasepake3 after verify; window not re-checked at Pake3; SPAKE2+ soundness; that every failure path calls record_pake_failure (async responder)"],
    assumptions=[],
)

PROPS["C08"] = dict(
    title="Commissioning under the fail-safe is all-or-nothing (gates and roll-back step)",
    scope="FailSafe::check_state equals the gate of the statement (armed, secured session of the arming fabric context, UpdateNOC only over CASE, present/absent "
          "flags); every credential command (add_trusted_root_cert, add_csr_req, update_csr_req, add_noc, update_noc) is Ok only through its gate, records exactly "
          "its flag, and on Err leaves the fail-safe state, staged root and staged key untouched; the accepted command sequences are the prescribed language "
          "(each at most once, AddNOC after CSR+root, UpdateNOC after update-CSR, never mixed, no root after a NOC command); arm/disarm/re-arm contracts; "
          "expire(): with a working store the result is Ok, state Idle, breadcrumb 0, the fabric is its persisted copy or absent, networks are the persisted "
          "ones, no live PASE session is left; a store failure keeps the fail-safe armed as it was.",
    verus=[],
    functions=[],
    trusted=["Fabrics::{remove, add_load, add, update} and Sessions::{remove_pase, remove_for_fabric} by contract over abstract tables (their real bodies did not close; "
             "only Fabrics::{get, fabric, fabric_mut} are proved against the real bodies)",
             "certificate validation and crypto stubbed to any outcome; KV/network mocks (a working store, or one that may fail on any load)"],
    out_of_reach=["crash points and KV failures between the handlers' writes (gen_comm.rs), restart", "ACL/group state 'exactly as before arming' (depends on every async cluster handler skipping persistence while armed)"],
    assumptions=[],
)

PROPS["C07"] = dict(
    title="Nothing bound to a fabric outlives that fabric (safety half, roll-back path)",
    scope="FailSafe::expire reporting a removed fabric leaves no live session of that fabric (CASE, PASE or group) over an abstract session table; "
          "ResumableSessions::find_by_peer never yields a record of another fabric or node; the session kept (expired) to carry the response opens no new "
          "exchange (Session::post_recv) and is never picked for outbound traffic (Sessions::get_for_node).",
    verus=[],
    functions=[],
    trusted=["Sessions::remove_for_fabric, ResumableSessions::remove_for_fabric, Fabrics index allocation: by contract only - ASSUMED: the real body of "
             "remove_for_fabric did not close in CBMC (48 GB with symbolic sessions, 14 GB with a lean table of 2), so a change inside it is not detected "
             "(seeded change C07-m1 is missed for this reason); remove_pase: real body checked on a table of 1 (C20)"],
    out_of_reach=["subscriptions, group keys, ACLs living inside Fabric (dropped with it by construction)", "peer traffic racing the removal; the reporter's 'fabric removed' predicate (async)"],
    assumptions=[],
)

PROPS["C18"] = dict(
    title="BTP delivers each message intact, once and in order, or fails cleanly",
    scope="RingBuf (the byte queue under the receive window) is proved by Verus against an abstract queue for EVERY capacity and input length. Kani step contracts: "
          "BtpHdr/HandshakeReq/HandshakeResp codecs (round trip + totality), SendWindow ack/post_send accounting, prep_tx_data (never sends when the peer's window "
          "is exhausted, header+chunk re-decode, consecutive sequence numbers mod 256, offset advances by the chunk, first/continue/final flags), handshake "
          "request/response processing for arbitrary bytes (accepted iff well-formed and in range; refusal changes nothing), and the hostile-peer cases "
          "(bogus ack, window overrun, tiny MTU, zero window, bad framing, re-handshake) each refused with an error and never a panic; "
          "BtpInner::process_outgoing never panics.",
    verus=["ringbuf"],
    functions=[],
    trusted=["inside session harnesses the 3166-byte ring is replaced by an abstract FIFO model (the real RingBuf is proved against the same queue view separately)",
             "log::max_level stubbed to Off; Instant::now stubbed"],
    out_of_reach=["the acknowledgement deadline and scheduling of two connected ends (async Btp::run)",
                  "process_rx for arbitrary DATA segments as one step contract and fetch_message did not close in CBMC (hostile cases are covered case by case)"],
    assumptions=[],
)

PROPS["C13"] = dict(
    title="A subscriber eventually learns every change it subscribed to (safety half)",
    scope="Abstract view pending(t) = max change id of the entries matching a concrete (endpoint, cluster, attribute). Step contracts: ChangedAttr::{matches, covers, coarsen}; "
          "ChangedAttrs::{record_raw (never under-covers, ids strictly increase), purge_up_to (entries above the threshold untouched), queries, clear, "
          "promote_largest_group}; SubscriptionsInner::{add, report, find_reportable, report_complete, purge_reported_changes, clear} with the NoLoss invariant over ALL live "
          "subscriptions including the one in flight; ReportContext commit-on-success / restore-on-failure; timing gates (is_expired, back-off, allowed/due instants).",
    verus=[],
    functions=[],
    trusted=["buffer pool replaced by a one-byte tag stand-in (rx is never read)", "Instant::now stubbed; Notification::notify trusted"],
    out_of_reach=["'eventually reported' (liveness; reporter loop scheduling), events (EventReader over TLV buffers)",
                  "overflow coalescing at full capacity (16 entries) did not close: covered only at 4 entries (bounded, not counted)"],
    assumptions=[],
)

PROPS["C15"] = dict(
    title="A nonce is never used for two different messages",
    scope="Session::get_msg_ctr (strictly increasing, error once the counter space is exhausted), Session::pre_send counter discipline over a 5-slot exchange table "
          "(a fresh message stamps the old counter and increments; a retransmission stamps exactly the counter remembered in its RetransEntry and consumes none; group data takes "
          "its reservation), RetransEntry/ReliableMessage counter memory, get_iv injective in (flags, counter, node id); id allocators: get_next_sess_id, get_next_exch_id, "
          "Sessions::add unique internal id (bounded tables, not counted).",
    verus=[],
    functions=[],
    trusted=["RandOnlyCrypto: rand returns arbitrary values or fails; Instant::now stubbed"],
    out_of_reach=["'a retransmission is bit-for-bit identical' depends on every async message builder being idempotent (cached signature in the CASE responder)",
                  "capacity-complete session tables (32 x 5) do not close: allocators are proved at 1-3 sessions (bounded)"],
    assumptions=[],
)

PROPS["C20"] = dict(
    title="Unfinished or hostile handshakes cannot leak or exhaust node resources for good (safety half)",
    scope="Session::{add_exch, remove_exch} (a slot is freed unless a retransmission/ack is pending, then the role becomes dropped), mDNS resolve/browse guards release their "
          "rendezvous on drop, Vec::swap_remove model exactness; bounded tables: eviction returns only an unreserved session without any live exchange, prefers an expired one, "
          "and returns Some whenever such a session exists; Sessions::{add, remove, remove_pase} frames.",
    verus=[],
    functions=[],
    trusted=["Vec::swap_remove replaced by a model proved equal to the real body on Vec<u64,4>"],
    out_of_reach=["ReservedSession drop contracts and tables beyond 1-3 sessions did not close in CBMC",
                  "'once traffic stops every slot is free again', 'a new legitimate handshake succeeds', busy replies (liveness / async)"],
    assumptions=[],
)


# ---- harness lists come from lib/harness_index.json (tools/gen_index.py scans kani/*.rs) and the named
# ---- obligations each harness must discharge from lib/expected.json (./verif expect-update)
import json as _json
import os as _os

_here = _os.path.dirname(_os.path.abspath(__file__))


def _load(name):
    p = _os.path.join(_here, name)
    return _json.load(open(p)) if _os.path.exists(p) else {}


INDEX = _load("harness_index.json")
EXPECTED = _load("expected.json")
for _pid, _P in PROPS.items():
    _P["kani"] = []
for _name, _h in sorted(INDEX.items()):
    # a harness serves the property of its name and any property listed in its `// ALSO: Cnn` comment (a decision that two
    # statements rest on, e.g. the certificate-chain step for C19 and C01)
    for _p in [_h["prop"]] + list(_h.get("also") or []):
      if _p in PROPS:
        _e = EXPECTED.get(_name, {})
        PROPS[_p]["kani"].append(dict(name=_name, tier=_h["tier"], kind=_h["kind"], bound=_h["bound"], expect=_h.get("expect"),
                                              obligations=_e.get("obligations", []), covers=_e.get("covers")))
