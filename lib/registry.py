"""Registry: which units decide which property. Harness text lives in kani/*.rs, Verus units in
verus/*.rs. `kind=complete` = loop-free over the full symbolic domain, or unwound to a compile-time
capacity with unwinding assertions; `kind=bounded` = a bound we chose (never counted as proved)."""


def H(name, tier="quick", kind="complete", bound="", obligations=(), expect=None):
    return dict(name=name, tier=tier, kind=kind, bound=bound, obligations=list(obligations), expect=expect)


PROPS = {}

PROPS["C04"] = dict(
    title="A message counter is accepted at most once per secure peer; newer ones always",
    scope="Step contracts of RxCtrState::{new,post_recv} (unicast encrypted, unsecured, roll-over) and GroupCtrStore::post_recv "
          "for all states and all counters; every finite history follows by induction over the step contracts.",
    verus=["dedup"],
    kani=[
        H("c04_new_closes_window", obligations=["C04.new.closed_at_or_below_only", "C04.new.max"]),
        H("c04_post_recv_unicast_encrypted", obligations=[
            "C04.unicast.accept_iff_not_seen", "C04.unicast.refusal_changes_nothing", "C04.unicast.accepted_is_closed",
            "C04.unicast.closed_stays_closed", "C04.unicast.newer_always_accepted", "C04.unicast.older_than_window_refused",
            "C04.unicast.exact_window"]),
        H("c04_post_recv_unicast_unencrypted", obligations=[
            "C04.unsecured.restart_accepted", "C04.unsecured.restart_window", "C04.unsecured.same_as_encrypted_inside",
            "C04.unsecured.refusal_changes_nothing", "C04.unsecured.accepted_is_closed"]),
        H("c04_post_recv_rollover", obligations=[
            "C04.group.accept_iff_not_seen", "C04.group.refusal_changes_nothing", "C04.group.accepted_is_closed",
            "C04.group.newer_always_accepted", "C04.group.older_than_window_refused",
            "C04.group.closed_stays_closed_in_window", "C04.group.exact_window"]),
        H("c04_group_store_3", kind="bounded", bound="3 of 16 tracked group senders"),
        H("c04_group_store_full", tier="thorough"),
        H("c04_group_store_any_len", tier="thorough"),
        H("c04_kf_session_first_counter_zero", expect="known-finding"),
    ],
    functions=[],
    trusted=[],
    out_of_reach=["the acknowledgement of a detected duplicate happens in async handle_rx_packet; only the cause (Err(Duplicate) exactly for refused counters) is under contract"],
    assumptions=[],
)

PROPS["C12"] = dict(
    title="Durable counters never hand out the same value twice, across restarts too",
    scope="Layer A: each counter operation (check-in counter, global group data counter, event number) refines a transition of an abstract "
          "epoch machine over unbounded logical positions (Verus, on the extracted real bodies). Layer B: for every schedule of reservations, "
          "stores and restarts (restart after any event) the positions handed out strictly increase and each is below the durable boundary when used.",
    verus=["checkin", "groupctr", "events"],
    kani=[],
    functions=[],
    trusted=["assumed contract: Persist::store_tlv (Ok => durable value is the argument, Err => unchanged)",
             "assumed contract: Sessions::get_or_init_global_group_data_ctr (random seed via Crypto)",
             "struct projections of Sessions / EventsInner to the fields the extracted functions touch (T7)"],
    out_of_reach=["that the application really performs the store the interface asks for (caller precondition of the layer-B machine)",
                  "KV-store failures between reserve and use (D9, outside the statement's quantifier)",
                  "counter horizons: 2^28-1 group counter positions, 2^32 check-in values, 2^64 event numbers (stated in the lemmas)"],
    assumptions=[],
)

PROPS["C16"] = dict(
    title="The TLV codec round-trips every value and rejects every malformed input safely",
    scope="Reader navigation core (TLVSequence::{control, tag*, value*, len, container_len, container_value_len, next_start, next_enter, "
          "container_next, current} + control/tag/type helpers) verified by Verus on the extracted real bodies for byte slices of ANY length: "
          "no panic, no overflow, no out-of-range access, returned slices are sub-ranges of the input, loops terminate (decreases).",
    verus=["tlvread"],
    kani=[],
    functions=[],
    trusted=["assumed contract: TLVSequence::value_len (length-field decoding via try_into/from_le_bytes)", "assumed: TLVControl::parse is total",
             "derived Clone of TLVSequence returns an equal value; Self::EMPTY is the empty slice"],
    out_of_reach=["derive-generated FromTLV/ToTLV of wire structures (macro output)", "whole value trees; floats beyond bit patterns",
                  "inputs of 2 GiB or more (i32 nesting counter horizon, stated as precondition)"],
    assumptions=[],
)
