"""A small Rust tokenizer + item slicer, enough to cut named items out of rs-matter sources
without being fooled by braces inside strings, chars, lifetimes or (nested) comments."""
import re


class Tok:
    __slots__ = ("kind", "s", "e", "text")

    def __init__(self, kind, s, e, text):
        self.kind, self.s, self.e, self.text = kind, s, e, text

    def __repr__(self):
        return "%s(%r)" % (self.kind, self.text)


_IDENT = re.compile(r"[A-Za-z_][A-Za-z0-9_]*")
_NUM = re.compile(r"[0-9][A-Za-z0-9_]*(\.[0-9][A-Za-z0-9_]*)?")


def tokenize(src):
    toks = []
    i, n = 0, len(src)
    while i < n:
        c = src[i]
        if c.isspace():
            j = i + 1
            while j < n and src[j].isspace():
                j += 1
            toks.append(Tok("ws", i, j, src[i:j]))
            i = j
        elif src.startswith("//", i):
            j = src.find("\n", i)
            j = n if j < 0 else j
            kind = "doc" if (src.startswith("///", i) and not src.startswith("////", i)) or src.startswith("//!", i) else "comment"
            toks.append(Tok(kind, i, j, src[i:j]))
            i = j
        elif src.startswith("/*", i):
            depth, j = 1, i + 2
            while j < n and depth:
                if src.startswith("/*", j):
                    depth += 1
                    j += 2
                elif src.startswith("*/", j):
                    depth -= 1
                    j += 2
                else:
                    j += 1
            kind = "doc" if src.startswith("/**", i) and not src.startswith("/**/", i) else "comment"
            toks.append(Tok(kind, i, j, src[i:j]))
            i = j
        elif c == '"' or (c in "br" and re.match(r'(b?r#*"|b")', src[i:i + 12])):
            m = re.match(r'(b?)(r(#*))?"', src[i:])
            if m.group(2) is not None:
                hashes = m.group(3)
                end = src.find('"' + hashes, i + m.end())
                j = n if end < 0 else end + 1 + len(hashes)
            else:
                j = i + m.end()
                while j < n and src[j] != '"':
                    j += 2 if src[j] == "\\" else 1
                j += 1
            toks.append(Tok("string", i, j, src[i:j]))
            i = j
        elif c == "'" or (c == "b" and src.startswith("b'", i)):
            k = i + (2 if c == "b" else 1)
            # char literal or lifetime?
            m = re.match(r"(\\(x[0-9a-fA-F]{2}|u\{[0-9a-fA-F_]+\}|.)|[^\\'])'", src[k:k + 14])
            if m:
                j = k + m.end()
                toks.append(Tok("char", i, j, src[i:j]))
            else:
                m = _IDENT.match(src, k)
                j = m.end() if m else k
                toks.append(Tok("lifetime", i, j, src[i:j]))
            i = j
        elif _IDENT.match(c):
            m = _IDENT.match(src, i)
            toks.append(Tok("ident", i, m.end(), m.group()))
            i = m.end()
        elif c.isdigit():
            m = _NUM.match(src, i)
            toks.append(Tok("num", i, m.end(), m.group()))
            i = m.end()
        else:
            toks.append(Tok("punct", i, i + 1, c))
            i += 1
    return toks


OPEN = {"{": "}", "(": ")", "[": "]"}
CLOSE = {v: k for k, v in OPEN.items()}


def sig(toks):
    """indices of significant tokens (no whitespace/comments)"""
    return [i for i, t in enumerate(toks) if t.kind not in ("ws", "comment", "doc")]


def match_close(toks, i):
    """toks[i] is an opening bracket; return index of the matching closer."""
    depth = 0
    for j in range(i, len(toks)):
        t = toks[j]
        if t.kind == "punct":
            if t.text in OPEN:
                depth += 1
            elif t.text in CLOSE:
                depth -= 1
                if depth == 0:
                    return j
    raise ValueError("unbalanced bracket at offset %d" % toks[i].s)


class Source:
    def __init__(self, path):
        self.path = path
        self.text = open(path).read()
        self.toks = tokenize(self.text)
        self.sig = sig(self.toks)

    def line_of(self, off):
        return self.text.count("\n", 0, off) + 1

    # -- item location -----------------------------------------------------------------------
    def _item_start(self, si):
        """Walk back from significant index si over visibility, qualifiers, attributes and docs."""
        toks, sg = self.toks, self.sig
        k = si
        while k > 0:
            p = toks[sg[k - 1]]
            if p.kind == "ident" and p.text in ("pub", "const", "unsafe", "async", "extern", "default"):
                k -= 1
            elif p.kind == "punct" and p.text == ")":
                # pub(crate)
                j = k - 1
                depth = 0
                while j >= 0:
                    t = toks[sg[j]]
                    if t.text == ")":
                        depth += 1
                    elif t.text == "(":
                        depth -= 1
                        if depth == 0:
                            break
                    j -= 1
                if j > 0 and toks[sg[j - 1]].text == "pub":
                    k = j - 1
                else:
                    break
            elif p.kind == "punct" and p.text == "]":
                # attribute #[...]
                j = k - 1
                depth = 0
                while j >= 0:
                    t = toks[sg[j]]
                    if t.text == "]":
                        depth += 1
                    elif t.text == "[":
                        depth -= 1
                        if depth == 0:
                            break
                    j -= 1
                if j > 0 and toks[sg[j - 1]].text == "#":
                    k = j - 1
                else:
                    break
            else:
                break
        return k

    def _attrs_text(self, k_start, k_item):
        return self.text[self.toks[self.sig[k_start]].s:self.toks[self.sig[k_item]].s]

    def top_items(self, lo=0, hi=None):
        """Yield (keyword, name, sig_index_of_keyword) for items at bracket depth 0 within sig range."""
        toks, sg = self.toks, self.sig
        hi = len(sg) if hi is None else hi
        depth = 0
        k = lo
        while k < hi:
            t = toks[sg[k]]
            if t.kind == "punct" and t.text in OPEN:
                depth += 1
            elif t.kind == "punct" and t.text in CLOSE:
                depth -= 1
            elif depth == 0 and t.kind == "ident" and t.text in ("fn", "struct", "enum", "const", "static", "type", "impl", "mod", "trait", "union"):
                if t.text == "const" and k + 1 < hi and toks[sg[k + 1]].text in ("fn", "unsafe"):
                    k += 1
                    continue
                nxt = toks[sg[k + 1]] if k + 1 < hi else None
                name = nxt.text if nxt is not None and nxt.kind == "ident" else ""
                yield t.text, name, k
            k += 1

    def item_extent(self, k):
        """For the item whose keyword is at significant index k: (k_start_with_attrs, k_body_open or None, k_end)."""
        toks, sg = self.toks, self.sig
        ks = self._item_start(k)
        j = k
        depth = 0
        while j < len(sg):
            t = toks[sg[j]]
            if t.kind == "punct":
                if t.text in ("(", "["):
                    depth += 1
                elif t.text in (")", "]"):
                    depth -= 1
                elif t.text == "<" or t.text == ">":
                    pass
                elif depth == 0 and t.text == ";":
                    return ks, None, j
                elif depth == 0 and t.text == "{":
                    # find matching close in the full token list
                    close_tok = match_close(toks, sg[j])
                    ke = self.sig.index(close_tok) if False else _bisect(sg, close_tok)
                    # tuple/unit structs end with ';' after '}'? no: `struct A {..}` ends at '}'
                    return ks, j, ke
            j += 1
        raise ValueError("item without end")

    def find_impl(self, type_name, trait=None):
        """All inherent (or `trait for`) impl blocks of `type_name`: list of (k_impl, k_open, k_close)."""
        res = []
        for kw, _, k in self.top_items():
            if kw != "impl":
                continue
            ks, ko, ke = self.item_extent(k)
            if ko is None:
                continue
            hdr = [self.toks[self.sig[x]].text for x in range(k + 1, ko)]
            # strip generics right after impl
            txt = " ".join(hdr)
            has_for = " for " in (" " + txt + " ")
            if trait is None and has_for:
                continue
            if trait is not None and not has_for:
                continue
            # self type ident = first ident after optional `for`
            seq = hdr
            if has_for:
                idx = len(hdr) - 1 - hdr[::-1].index("for")
                tr = [x for x in hdr[:idx] if re.match(r"[A-Za-z_]", x)]
                if trait not in tr:
                    continue
                seq = hdr[idx + 1:]
            else:
                # skip leading generics <...>
                if seq and seq[0] == "<":
                    d = 0
                    for i, x in enumerate(seq):
                        if x == "<":
                            d += 1
                        elif x == ">":
                            d -= 1
                            if d == 0:
                                seq = seq[i + 1:]
                                break
            names = [x for x in seq if re.match(r"[A-Za-z_]", x) and x not in ("where", "dyn", "mut", "const")]
            if names and names[0] == type_name:
                res.append((k, ko, ke))
        return res

    def attrs_of(self, k):
        ks = self._item_start(k)
        return self.text[self.toks[self.sig[ks]].s:self.toks[self.sig[k]].s]


def _bisect(sg, tok_index):
    import bisect
    i = bisect.bisect_left(sg, tok_index)
    if i < len(sg) and sg[i] == tok_index:
        return i
    raise ValueError("token not significant")
