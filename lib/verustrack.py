"""Track V: Verus on function text extracted mechanically from /repo on every run.

A unit is a template `/verif/verus/<unit>.rs` = Verus specification text (spec fns, lemmas,
assumed interfaces) plus directives that pull the *real* items out of the repository:

  //@src <path relative to /repo>
  //@item const|struct|enum|type <Name>          the item, rules T1-T4 applied
  //@fn <Type>::<name> [ret=<r>] [twin=<kani harness>]   (or a free `<name>`; `Trait@Type::name`)
  //@+ <spec text>            requires/ensures/decreases, placed between signature and body
  //@at before|after "<text occurring once in the body>"      (`//@at?` = optional hint: skipped if the anchor is gone)
  //@+ <proof text>           ghost code placed on its own line before/after that line
  //@loop "<text of the loop header>"
  //@+ <invariant/decreases>  placed between the loop header and its body
  //@subst "<A>" "<B>"        (T6) textual substitution in all functions extracted after it - listed in evidence
  //@drop "<text>"            (T6) replace an out-of-scope statement line by nothing - listed in evidence

What extraction changes (everything else is byte-identical to the repository text):
  T1 attributes and doc comments are dropped; cfg(test) items are never extracted
  T2 statements that are only a logging macro call are dropped
  T3 unwrap!(e[, ..]) -> (e).unwrap();  assert!(c[, ..]) / debug_assert!(c) -> assert(c) (a panic is an obligation)
  T4 visibility only: `pub(crate)`/private items and struct fields become `pub`
  T5 the //@+ insertions above (only at those three kinds of position)
Exit status of a unit: ok / failed (an obligation of an extracted function is refuted) / undecided
(lost anchor, unsupported construct, Verus internal error, rlimit).
"""
import json
import os
import re
import time

from common import CACHE, REPO, VERUS_DIR, log, run, sha256_text
from rusttok import Source, tokenize, match_close, OPEN, CLOSE

LOG_MACROS = {"trace", "debug", "info", "warn", "error", "mrp_log"}


class ExtractError(Exception):
    pass


def _sigtoks(toks):
    return [t for t in toks if t.kind not in ("ws",)]


def transform(text, is_struct=False):
    """Apply T1-T4 to an item text. Returns new text."""
    toks = tokenize(text)
    out = []
    i = 0
    n = len(toks)

    def prev_sig():
        for t in reversed(out):
            if isinstance(t, str):
                s = t.strip()
                if s:
                    return s[-1]
            elif t.kind not in ("ws", "comment", "doc"):
                return t.text
        return None

    while i < n:
        t = toks[i]
        # T1: doc comments
        if t.kind == "doc":
            i += 1
            continue
        # T1: attributes  # [ ... ]  /  # ! [ ... ]
        if t.kind == "punct" and t.text == "#":
            j = i + 1
            while j < n and toks[j].kind == "ws":
                j += 1
            if j < n and toks[j].text == "!":
                j += 1
            if j < n and toks[j].text == "[":
                k = match_close(toks, j)
                attr = "".join(x.text for x in toks[j + 1:k])
                if re.match(r"\s*derive\b", attr) and re.search(r"\bCopy\b", attr):
                    # T1 exception: a Copy type stays Copy (Verus derives the matching Clone/Copy specification)
                    out.append("#[derive(Clone, Copy)]")
                i = k + 1
                continue
        # T2 / T3: macros
        if t.kind == "ident" and i + 1 < n and toks[i + 1].text == "!":
            j = i + 2
            while j < n and toks[j].kind == "ws":
                j += 1
            if j < n and toks[j].text in OPEN:
                k = match_close(toks, j)
                if t.text in LOG_MACROS:
                    p = prev_sig()
                    m = k + 1
                    while m < n and toks[m].kind == "ws":
                        m += 1
                    if p in (None, "{", "}", ";") and m < n and toks[m].text == ";":
                        i = m + 1
                        continue
                    raise ExtractError("logging macro %s! in expression position" % t.text)
                if t.text in ("assert", "debug_assert"):
                    # T3: a run-time assertion is a proof obligation (a panic must be unreachable)
                    inner = toks[j + 1:k]
                    depth = 0
                    cut = len(inner)
                    for q, u in enumerate(inner):
                        if u.kind == "punct":
                            if u.text in OPEN:
                                depth += 1
                            elif u.text in CLOSE:
                                depth -= 1
                            elif u.text == "," and depth == 0:
                                cut = q
                                break
                    expr = "".join(u.text for u in inner[:cut]).strip()
                    out.append("assert(" + transform(expr) + ")")
                    i = k + 1
                    continue
                if t.text == "unwrap":
                    inner = toks[j + 1:k]
                    # split at top-level comma
                    depth = 0
                    cut = len(inner)
                    for q, u in enumerate(inner):
                        if u.kind == "punct":
                            if u.text in OPEN:
                                depth += 1
                            elif u.text in CLOSE:
                                depth -= 1
                            elif u.text == "," and depth == 0:
                                cut = q
                                break
                    expr = "".join(u.text for u in inner[:cut]).strip()
                    out.append("(" + transform(expr) + ").unwrap()")
                    i = k + 1
                    continue
        # T4: pub(crate) / pub(super) -> pub
        if t.kind == "ident" and t.text == "pub":
            j = i + 1
            while j < n and toks[j].kind == "ws":
                j += 1
            if j < n and toks[j].text == "(":
                k = match_close(toks, j)
                out.append("pub")
                i = k + 1
                continue
        out.append(t)
        i += 1
    res = "".join(x if isinstance(x, str) else x.text for x in out)
    return res


def publicise_fields(text):
    """T4 for a struct item: every named field becomes `pub`."""
    toks = tokenize(text)
    # find the body brace
    for i, t in enumerate(toks):
        if t.kind == "punct" and t.text == "{":
            close = match_close(toks, i)
            break
        if t.kind == "punct" and t.text in ("(", ";"):
            return text  # tuple/unit struct: handled textually elsewhere
    else:
        return text
    out = [x.text for x in toks[:i + 1]]
    depth = 0
    expect_field = True
    j = i + 1
    while j < close:
        t = toks[j]
        if t.kind == "punct" and t.text in OPEN:
            depth += 1
        elif t.kind == "punct" and t.text in CLOSE:
            depth -= 1
        if depth == 0 and expect_field and t.kind == "ident":
            if t.text != "pub":
                out.append("pub ")
            expect_field = False
        if depth == 0 and t.kind == "punct" and t.text == ",":
            expect_field = True
        out.append(t.text)
        j += 1
    out += [x.text for x in toks[close:]]
    return "".join(out)


def make_pub(text, kw):
    """T4: make the item itself `pub` (no-op if it already is)."""
    m = re.search(r"(^|\n)(\s*)((pub\s+)?)(%s)\b" % re.escape(kw), text)
    if not m or m.group(3):
        return text
    return text[:m.start(5)] + "pub " + text[m.start(5):]


class Unit:
    def __init__(self, name):
        self.name = name
        self.template = os.path.join(VERUS_DIR, name + ".rs")
        self.functions = []     # dict(id, file, line_from, line_to, sha256, gen_from, gen_to, twin)
        self.dropped = []
        self.skipped_hints = []
        self.substs = []      # T6: textual substitutions applied to extracted function text (listed in evidence)
        self.sources = {}

    def src(self, rel):
        if rel not in self.sources:
            p = os.path.join(REPO, rel)
            if not os.path.exists(p):
                raise ExtractError("source file missing: " + rel)
            self.sources[rel] = Source(p)
        return self.sources[rel]

    # ------------------------------------------------------------------------------------
    def slice_item(self, rel, kind, name):
        S = self.src(rel)
        cands = []
        for kw, nm, k in S.top_items():
            if kw == kind and nm == name:
                attrs = S.attrs_of(k)
                if "cfg(test)" in attrs:
                    continue
                cands.append(k)
        if len(cands) != 1:
            raise ExtractError("%s %s in %s: %d candidates (lost anchor)" % (kind, name, rel, len(cands)))
        ks, ko, ke = S.item_extent(cands[0])
        s = S.toks[S.sig[ks]].s
        e = S.toks[S.sig[ke]].e
        # tuple struct `struct A(..);` : extent ends at ';' already (ko None)
        raw = S.text[s:e]
        return raw, S.line_of(s), S.line_of(e)

    def slice_fn(self, rel, spec):
        """spec: `name`, `Type::name` or `Trait@Type::name`. Returns (signature, body, raw, line_from, line_to)."""
        S = self.src(rel)
        trait = None
        if "::" in spec:
            ty, fname = spec.rsplit("::", 1)
            if "@" in ty:
                trait, ty = ty.split("@", 1)
            impls = S.find_impl(ty, trait)
            if not impls:
                raise ExtractError("impl %s not found in %s (lost anchor)" % (ty, rel))
            cands = []
            for (k, ko, ke) in impls:
                if "cfg(test)" in S.attrs_of(k):
                    continue
                for kw, nm, kk in S.top_items(ko + 1, ke):
                    if kw == "fn" and nm == fname:
                        cands.append(kk)
        else:
            fname = spec
            cands = [k for kw, nm, k in S.top_items() if kw == "fn" and nm == fname]
        cands = [k for k in cands if "cfg(test)" not in S.attrs_of(k)]
        if len(cands) != 1:
            raise ExtractError("fn %s in %s: %d candidates (lost anchor)" % (spec, rel, len(cands)))
        k = cands[0]
        ks, ko, ke = S.item_extent(k)
        if ko is None:
            raise ExtractError("fn %s has no body" % spec)
        # start after attributes/docs: first of pub/const/unsafe/async/fn
        kk = k
        while kk - 1 >= ks and S.toks[S.sig[kk - 1]].text in ("pub", "const", "unsafe", "async", ")") :
            kk -= 1
            if S.toks[S.sig[kk]].text == ")":
                while S.toks[S.sig[kk]].text != "pub":
                    kk -= 1
        s_sig = S.toks[S.sig[kk]].s
        s_body = S.toks[S.sig[ko]].s
        e_body = S.toks[S.sig[ke]].e
        raw = S.text[S.toks[S.sig[ks]].s:e_body]
        return S.text[s_sig:s_body], S.text[s_body:e_body], raw, S.line_of(S.toks[S.sig[ks]].s), S.line_of(e_body)

    # ------------------------------------------------------------------------------------
    def generate(self):
        if not os.path.exists(self.template):
            raise ExtractError("template missing: " + self.template)
        lines = open(self.template).read().split("\n")
        out = []
        rel = None
        i = 0

        def take_plus(i):
            acc = []
            while i < len(lines) and lines[i].lstrip().startswith("//@+"):
                acc.append(lines[i].lstrip()[4:].lstrip(" ") if lines[i].lstrip()[4:5] != "" else "")
                i += 1
            return acc, i

        while i < len(lines):
            l = lines[i]
            st = l.strip()
            if not st.startswith("//@"):
                out.append(l)
                i += 1
                continue
            d = st[3:].strip()
            i += 1
            if d.startswith("src "):
                rel = d[4:].strip()
            elif d.startswith("subst "):
                m = re.match(r'subst\s+"(.*)"\s+"(.*)"$', d)
                if not m:
                    raise ExtractError("bad subst directive: " + d)
                self.substs.append((m.group(1), m.group(2)))
            elif d.startswith("item "):
                _, kind, name = d.split()[:3]
                raw, l0, l1 = self.slice_item(rel, kind, name)
                txt = transform(raw)
                if kind == "struct":
                    txt = publicise_fields(txt)
                txt = make_pub(txt, kind)
                if kind == "struct" and "(" in txt.split("{")[0] and "{" not in txt:
                    # tuple struct fields
                    txt = re.sub(r"\(\s*(?!pub)", "(pub ", txt, count=1)
                out.append("// ---- extracted: %s %s @ %s:%d-%d" % (kind, name, rel, l0, l1))
                out.extend(txt.split("\n"))
                self.functions.append(dict(id="%s %s @ %s:%d-%d" % (kind, name, rel, l0, l1), sha256=sha256_text(raw), kind="item"))
            elif d.startswith("fn "):
                parts = d.split()
                spec = parts[1]
                opts = dict(p.split("=", 1) for p in parts[2:] if "=" in p)
                sig, body, raw, l0, l1 = self.slice_fn(rel, spec)
                sig = transform(sig).rstrip()
                body = transform(body)
                for a, b in self.substs:
                    body = body.replace(a, b)
                    sig = sig.replace(a, b)
                if not re.match(r"\s*pub\b", sig):
                    sig = "pub " + sig.lstrip()
                if "ret" in opts:
                    m = re.search(r"->\s*", sig)
                    if not m:
                        raise ExtractError("fn %s: ret= given but no return type" % spec)
                    rt = sig[m.end():]
                    w = re.search(r"\bwhere\b", rt)
                    where = ""
                    if w:
                        where = " " + rt[w.start():]
                        rt = rt[:w.start()]
                    sig = sig[:m.start()] + "-> (%s: %s)%s" % (opts["ret"], rt.strip(), where)
                specl, i = take_plus(i)
                # body insertions
                blines = body.split("\n")
                marks = {}   # line index -> (before[], after[])
                loops = []
                while i < len(lines) and re.match(r"\s*//@(at\??|loop|drop)\b", lines[i]):
                    dd = lines[i].strip()[3:].strip()
                    i += 1
                    ins, i = take_plus(i)
                    optional = dd.startswith("at?")
                    if optional:
                        dd = "at" + dd[3:]
                    m = re.match(r'(at\s+(before|after)|loop|drop)\s+"(.*)"\s*(#(\d+))?$', dd)
                    if not m:
                        raise ExtractError("bad directive: " + dd)
                    pat = m.group(3)
                    nth = int(m.group(5)) if m.group(5) else None
                    hits = [q for q, bl in enumerate(blines) if pat in bl]
                    if nth is not None:
                        if nth > len(hits):
                            raise ExtractError("fn %s: anchor %r #%d not found (lost anchor)" % (spec, pat, nth))
                        hits = [hits[nth - 1]]
                    if optional and len(hits) != 1:
                        # an optional proof hint whose anchor is gone is skipped: the obligation is then simply harder to prove
                        self.skipped_hints.append("%s: %r" % (spec, pat))
                        continue
                    if len(hits) != 1:
                        raise ExtractError("fn %s: anchor %r matches %d lines (lost anchor)" % (spec, pat, len(hits)))
                    q = hits[0]
                    if dd.startswith("at"):
                        b, a = marks.setdefault(q, ([], []))
                        (b if m.group(2) == "before" else a).extend(ins)
                    elif dd.startswith("drop"):
                        self.dropped.append("%s: %s" % (spec, blines[q].strip()))
                        blines[q] = "/* T6 dropped: %s */" % blines[q].strip().replace("*/", "")
                    else:
                        loops.append((q, pat, ins))
                for (q, pat, ins) in loops:
                    # the loop body brace: first '{' at bracket depth 0 after the pattern start
                    joined = "\n".join(blines[q:])
                    start = joined.index(pat)
                    tk = tokenize(joined[start:])
                    depth = 0
                    pos = None
                    for t in tk:
                        if t.kind == "punct":
                            if t.text in ("(", "["):
                                depth += 1
                            elif t.text in (")", "]"):
                                depth -= 1
                            elif t.text == "{" and depth == 0:
                                pos = start + t.s
                                break
                    if pos is None:
                        raise ExtractError("fn %s: loop body not found after %r" % (spec, pat))
                    joined = joined[:pos] + "\n" + "\n".join("        " + x for x in ins) + "\n" + joined[pos:]
                    newl = joined.split("\n")
                    # re-map marks after q: shift by inserted line count for lines beyond the brace line
                    shift = len(newl) - len(blines[q:])
                    brace_line = q + joined[:pos].count("\n")
                    marks = {(k2 + shift if k2 > brace_line else k2): v for k2, v in marks.items()}
                    loops = [(qq + shift if qq > brace_line else qq, p2, i2) for (qq, p2, i2) in loops]
                    blines = blines[:q] + newl
                final = []
                for q, bl in enumerate(blines):
                    b, a = marks.get(q, ([], []))
                    final.extend(b)
                    final.append(bl)
                    final.extend(a)
                gen_from = len(out) + 1
                out.append("// ---- extracted: fn %s @ %s:%d-%d" % (spec, rel, l0, l1))
                out.extend(sig.split("\n"))
                out.extend("    " + x for x in specl)
                out.extend(final)
                gen_to = len(out)
                self.functions.append(dict(id="fn %s @ %s:%d-%d" % (spec, rel, l0, l1), sha256=sha256_text(raw), kind="fn", name=spec.split("::")[-1],
                                           spec=spec, gen_from=gen_from, gen_to=gen_to, twin=opts.get("twin")))
            elif d.startswith("+"):
                raise ExtractError("stray //@+ line %d" % i)
            else:
                raise ExtractError("unknown directive: " + d)
        return "\n".join(out)


def parse_errors(stderr):
    errs = []
    cur = None
    for l in stderr.splitlines():
        m = re.match(r"^(error|warning)(\[[A-Z0-9]+\])?: (.*)", l)
        if m:
            cur = dict(level=m.group(1), msg=m.group(3), line=None, text=[l])
            if m.group(1) == "error":
                errs.append(cur)
            continue
        if cur is not None:
            cur["text"].append(l)
            m = re.match(r"^\s*--> [^:]+:(\d+):(\d+)", l)
            if m and cur["line"] is None:
                cur["line"] = int(m.group(1))
    return errs


REFUTE = ("postcondition not satisfied", "precondition not satisfied", "possible arithmetic underflow/overflow", "invariant not satisfied",
          "possible division by zero", "assertion failed", "possible bit shift underflow/overflow", "loop invariant not preserved",
          "decreases not satisfied", "possible index out of bounds", "unreachable", "recommendation not met")


def run_unit(name):
    t0 = time.time()
    U = Unit(name)
    res = dict(unit=name, template=U.template, obligations=[], functions=[], status="ok")
    try:
        text = U.generate()
    except (ExtractError, ValueError) as ex:
        res.update(status="undecided", reason="extraction: %s" % ex, seconds=time.time() - t0)
        return res
    gen = os.path.join(CACHE, "verus", name + ".rs")
    os.makedirs(os.path.dirname(gen), exist_ok=True)
    open(gen, "w").write(text)
    cmd = ["verus", gen, "--output-json", "--time-expanded", "--multiple-errors", "10", "--rlimit", os.environ.get("VERIF_VERUS_RLIMIT", "60")]
    rc, so, se, secs = run(cmd, cwd=os.path.dirname(gen), timeout=1800)
    res["cmd"] = " ".join(cmd)
    res["seconds"] = time.time() - t0
    res["generated"] = gen
    res["functions"] = [dict(id=f["id"], sha256=f["sha256"], back_end="verus") for f in U.functions]
    res["dropped"] = U.dropped
    res["skipped_hints"] = U.skipped_hints
    res["substitutions"] = ["%s -> %s" % ab for ab in U.substs]
    if rc is None:
        res.update(status="undecided", reason="verus timed out")
        return res
    try:
        doc = json.loads(so[so.index("{"):])
    except Exception:
        res.update(status="undecided", reason="verus produced no JSON: " + se[-1500:])
        return res
    vr = doc.get("verification-results", {})
    errs = parse_errors(se)
    if vr.get("encountered-vir-error") or (not vr and rc != 0) or (rc != 0 and vr.get("errors", 0) == 0):
        res.update(status="undecided", reason="verus rejected the unit (unsupported construct / syntax): " + "\n".join("\n".join(e["text"][:6]) for e in errs[:5])[-2500:])
        return res
    # per-function verdicts
    fb = []
    for m in doc.get("times-ms", {}).get("smt", {}).get("smt-run-module-times", []):
        fb.extend(m.get("function-breakdown", []))
    extracted = {}
    for f in U.functions:
        if f["kind"] == "fn":
            extracted[f["name"]] = f
    by_fn_err = {}
    for e in errs:
        owner = None
        for f in U.functions:
            if f["kind"] == "fn" and e["line"] is not None and f["gen_from"] <= e["line"] <= f["gen_to"]:
                owner = f
        by_fn_err.setdefault(owner["spec"] if owner else None, []).append(e)
    rlimit_hit = any("Resource limit" in e["msg"] or "rlimit" in e["msg"] for e in errs)
    for b in fb:
        fn = b["function"].split("::")[-1]
        full = b["function"]
        f = None
        for cand in U.functions:
            if cand["kind"] == "fn" and cand["name"] == fn and (("::" not in cand["spec"]) or full.endswith(cand["spec"].split("@")[-1]) or full.endswith("::" + fn)):
                f = cand
        layer = "A" if f is not None else "B"
        ok = bool(b.get("success"))
        ob = dict(name="%s [%s]" % (full, b.get("mode:", b.get("mode", ""))), layer=layer, verdict="discharged" if ok else "refuted",
                  micros=b.get("time-micros"), kani_twin=(f or {}).get("twin"))
        if not ok:
            msgs = by_fn_err.get(f["spec"] if f else None, [])
            ob["message"] = "\n".join("\n".join(e["text"][:12]) for e in msgs[:4])[-3000:]
            kinds = [e["msg"] for e in msgs]
            if rlimit_hit or any("Resource limit" in k for k in kinds):
                ob["verdict"] = "undecided"
        res["obligations"].append(ob)
    if any(o["verdict"] == "undecided" for o in res["obligations"]):
        res["status"] = "undecided"
        res["reason"] = "rlimit exceeded"
    elif any(o["verdict"] == "refuted" for o in res["obligations"]):
        res["status"] = "failed"
    if not res["obligations"]:
        res.update(status="undecided", reason="zero obligations generated (vacuity guard)")
    # canaries: proof fns named canary_* must FAIL (they assert false under a precondition)
    for o in res["obligations"]:
        if "::canary_" in o["name"]:
            if o["verdict"] == "discharged":
                res["status"] = "undecided"
                res["reason"] = "canary %s verified: a precondition is contradictory (vacuity)" % o["name"]
                o["verdict"] = "vacuous"
            else:
                o["verdict"] = "discharged"   # expected failure observed
                o["canary"] = True
    if res["status"] == "failed" and not any(o["verdict"] == "refuted" for o in res["obligations"]):
        res["status"] = "ok"
    return res


def smoke():
    gen = os.path.join(CACHE, "verus", "smoke.rs")
    os.makedirs(os.path.dirname(gen), exist_ok=True)
    open(gen, "w").write("use vstd::prelude::*;\nverus!{ proof fn t(x:int) ensures x+0==x {} }\nfn main(){}\n")
    rc, so, se, secs = run(["verus", gen, "--output-json"], cwd=os.path.dirname(gen), timeout=600)
    print("verus smoke rc=%s in %.1fs" % (rc, secs))
    return 0 if rc == 0 else 1
