#!/usr/bin/env python3
"""Append the add-only verification hook to a module of /repo/rs-matter/src (development helper).
usage: add_hook.py transport/dedup.rs [more.rs ...]"""
import sys, os
ROOT = '/repo/rs-matter/src/'
for rel in sys.argv[1:]:
    p = ROOT + rel
    name = rel[:-3].replace('/', '__')
    s = open(p).read()
    if 'mod verif_kani' in s:
        print('already hooked', rel); continue
    hook = f'''
// Verification hook. Inert unless built by the Kani compiler (`cargo kani`, `cargo kani playback`):
// the harness text lives outside this repository, in `$RS_MATTER_VERIF_DIR`.
#[cfg(kani)]
mod verif_kani {{
    #[allow(unused_imports)]
    use super::*;
    include!(concat!(env!("RS_MATTER_VERIF_DIR"), "/{name}.rs"));
}}
'''
    if not s.endswith('\n'): s += '\n'
    open(p, 'w').write(s + hook)
    h = '/verif/kani/' + name + '.rs'
    if not os.path.exists(h):
        open(h, 'w').write(f'// Kani harnesses compiled inside rs-matter/src/{rel} (module `verif_kani`).\n')
    print('hooked', rel, '->', h)
