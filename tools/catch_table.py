#!/usr/bin/env python3
"""Print the markdown table 'which check catches which seeded change' from seeded/*/meta.json + result.json."""
import json, os, re
V = os.path.dirname(os.path.dirname(os.path.abspath(__file__)))
rows = []
IDX = json.load(open(os.path.join(V, 'lib', 'harness_index.json')))
for sid in sorted(os.listdir(os.path.join(V, 'seeded'))):
    d = os.path.join(V, 'seeded', sid)
    if not os.path.isdir(d): continue
    meta = json.load(open(os.path.join(d, 'meta.json')))
    res = json.load(open(os.path.join(d, 'result.json'))) if os.path.exists(os.path.join(d, 'result.json')) else None
    conf = json.load(open(os.path.join(d, 'confirm.json'))) if os.path.exists(os.path.join(d, 'confirm.json')) else {}
    if res is None:
        rows.append((sid, meta['property'], (meta.get('what') or meta.get('summary',''))[:110], 'yes' if conf.get('confirmed') else '-', 'not evaluated', '')); continue
    r = res['results'].get(meta['property'], {})
    okc = 'yes' if conf.get('confirmed') else ('no' if conf else '-')
    obl = []
    for l in r.get('lines', []):
        m = re.search(r'obligation=(\S+)', l)
        if l.startswith('VIOLATION') and m:
            h = re.search(r'harness=(\S+)', l)
            obl.append(m.group(1) + (' (' + h.group(1) + ')' if h else ' (verus)') + (' [replayed]' if 'no-failing-input-found' not in l else ' [no-failing-input-found]'))
    verdict = {1: 'caught', 0: 'MISSED', 2: 'undecided'}.get(r.get('exit'), '?')
    if verdict == 'caught' and res.get('tier') == 'quick':
        # cross-check against the registered index: at least one of the failing units must be in the quick tier
        hs = [re.search(r'harness=(\S+)', l) for l in r.get('lines', []) if l.startswith('VIOLATION')]
        inq = [(h is None) or IDX.get(h.group(1), {}).get('tier') == 'quick' for h in hs]
        if not any(inq):
            verdict = 'caught by a harness now in the thorough tier'
    rows.append((sid, meta['property'], (meta.get('what') or meta.get('summary',''))[:150], okc, verdict + ' (' + res.get('tier', '') + ')', '; '.join(obl[:3]) or '; '.join(x[:120] for x in r.get('lines', [])[:1])))
print('| seeded change | prop | what it does | confirmed | outcome | failing obligation(s) |')
print('|---|---|---|---|---|---|')
for r in rows:
    print('| %s | %s | %s | %s | %s | %s |' % tuple(str(x).replace('|', '\\|') for x in r))
