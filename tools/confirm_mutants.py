#!/usr/bin/env python3
"""Confirm seeded changes independently of their authors, in a scratch worktree (never /repo):
(a) the change applies and compiles, (b) the existing tests pass with it (lib suite + whole workspace),
(c) the demonstration fails with the change and passes without it. Writes /verif/seeded/<id>/confirm.json.
usage: confirm_mutants.py <worktree> <id> [<id>...]"""
import json, os, re, shutil, subprocess, sys, time
V = os.path.dirname(os.path.dirname(os.path.abspath(__file__)))
W = sys.argv[1]
LIB = ['cargo', 'test', '-p', 'rs-matter', '--lib', '--offline', '--features', 'groups,persistent-subscriptions,max-sessions-32', '-j', '8']

def sh(cmd, **kw):
    p = subprocess.run(cmd, cwd=W, capture_output=True, text=True, **kw)
    return p.returncode, p.stdout + p.stderr

def counts(out):
    ok = sum(int(x) for x in re.findall(r'test result: \w+\. (\d+) passed', out))
    bad = sum(int(x) for x in re.findall(r'test result: \w+\. \d+ passed; (\d+) failed', out))
    return ok, bad

for sid in sys.argv[2:]:
    d = os.path.join(V, 'seeded', sid)
    meta = json.load(open(os.path.join(d, 'meta.json')))
    demo = meta['demo']          # {"mode": "append"|"test", "file": ..., "filter"|"name": ...}
    res = dict(id=sid, worktree_head=sh(['git', 'rev-parse', '--short', 'HEAD'])[1].strip())
    t0 = time.time()
    sh(['git', 'checkout', '--', '.']); sh(['git', 'clean', '-fdq', 'rs-matter/tests', 'rs-matter/src'])
    rc, out = sh(['git', 'apply', os.path.join(d, 'patch.diff')])
    res['applies'] = rc == 0
    if rc != 0:
        res['error'] = out[-500:]
    else:
        rc, out = sh(LIB)
        res['lib_with_change'] = dict(exit=rc, passed=counts(out)[0], failed=counts(out)[1])
        rc, out = sh(['cargo', 'test', '--workspace', '--offline', '-j', '8'])
        res['workspace_with_change'] = dict(exit=rc, passed=counts(out)[0], failed=counts(out)[1])
        def add_demo():
            lib = list(LIB)
            if demo.get('features'):
                i = lib.index('--features'); lib[i + 1] = lib[i + 1] + ',' + demo['features']
            if demo['mode'] == 'append':
                with open(os.path.join(W, demo['file']), 'a') as f:
                    f.write('\n' + open(os.path.join(d, 'demo.rs')).read())
                return lib + [demo['filter']]
            if demo['mode'] == 'module':
                shutil.copy(os.path.join(d, 'demo.rs'), os.path.join(W, demo['file']))
                with open(os.path.join(W, demo['hook_file']), 'a') as f:
                    f.write('\n' + demo['hook_line'] + '\n')
                return lib + [demo['filter']]
            shutil.copy(os.path.join(d, 'demo.rs'), os.path.join(W, 'rs-matter', 'tests', demo['name'] + '.rs'))
            return ['cargo', 'test', '-p', 'rs-matter', '--test', demo['name'], '--offline', '-j', '8']
        cmd = add_demo()
        rc, out = sh(cmd, timeout=1800)
        res['demo_with_change'] = dict(exit=rc, passed=counts(out)[0], failed=counts(out)[1], tail=out[-1500:])
        sh(['git', 'checkout', '--', '.'])
        cmd = add_demo()
        rc, out = sh(cmd, timeout=1800)
        res['demo_without_change'] = dict(exit=rc, passed=counts(out)[0], failed=counts(out)[1])
        res['confirmed'] = (res['lib_with_change']['exit'] == 0 and res['workspace_with_change']['exit'] == 0
                            and res['demo_with_change']['exit'] != 0 and res['demo_without_change']['exit'] == 0 and res['demo_without_change']['passed'] > 0)
    sh(['git', 'checkout', '--', '.']); sh(['git', 'clean', '-fdq', 'rs-matter/tests', 'rs-matter/src'])
    res['wall_s'] = round(time.time() - t0)
    json.dump(res, open(os.path.join(d, 'confirm.json'), 'w'), indent=1)
    print(sid, 'confirmed' if res.get('confirmed') else 'NOT CONFIRMED', json.dumps({k: v for k, v in res.items() if k not in ('demo_with_change',)})[:400], flush=True)
