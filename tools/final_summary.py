#!/usr/bin/env python3
"""Regenerate the per-property summary between the SUMMARY markers of DESIGN.md from evidence/*.json and the index."""
import json, glob, os, re
V = os.path.dirname(os.path.dirname(os.path.abspath(__file__)))
ix = json.load(open(os.path.join(V, 'lib', 'harness_index.json')))
rows = []
for f in sorted(glob.glob(os.path.join(V, 'evidence', 'C*.json'))):
    e = json.load(open(f)); c = e['coverage']; p = e['property_id']
    mine = [v for v in ix.values() if v['prop'] == p or p in (v.get('also') or [])]
    vu = [s for s in c['samples'] if s.get('back_end') == 'verus']
    rows.append('| %s | %s | %s | %d / %d | %d | %d | %d | %s | %d | %.0f |' % (
        p, e['tier'], e['level'], sum(1 for v in mine if v['tier'] == 'quick'), len(mine), len(vu), c['obligations'], c.get('bounded_obligations', 0),
        c['cover_points_satisfied'], len(c.get('known_findings', [])), e['wall_s']))
t = ('| prop | tier of the evidence file | evidence level | Kani harnesses quick / all | Verus obligations | checks discharged in unbounded units | checks discharged in bounded units (never counted as proved) | cover points satisfied | KNOWN-FINDING lines | wall s |\n'
     '|---|---|---|---|---|---|---|---|---|---|\n' + '\n'.join(rows) + '\n')
p = os.path.join(V, 'DESIGN.md')
s = open(p).read()
s = re.sub(r'<!-- SUMMARY-BEGIN -->.*<!-- SUMMARY-END -->', lambda m: '<!-- SUMMARY-BEGIN -->\n' + t + '<!-- SUMMARY-END -->', s, flags=re.S)
open(p, 'w').write(s)
print(t)
