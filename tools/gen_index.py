#!/usr/bin/env python3
"""Scan kani/*.rs for harnesses and write lib/harness_index.json.
A harness is `#[kani::proof]` ... `fn cNN_<name>()`; the comment lines directly above its attributes may carry
  // TIER: quick|thorough        (default quick)
  // KIND: complete | bounded (<bound text>)     (default complete)
Naming: cNN_kf_* = witness of a known finding (expected to fail)."""
import json, os, re, sys
V = os.path.dirname(os.path.dirname(os.path.abspath(__file__)))
idx = {}
for f in sorted(os.listdir(os.path.join(V, 'kani'))):
    if not f.endswith('.rs'):
        continue
    lines = open(os.path.join(V, 'kani', f)).read().split('\n')
    for i, l in enumerate(lines):
        m = re.match(r'\s*(pub\s+)?fn\s+(c(\d\d)_[A-Za-z0-9_]+)\s*\(', l)
        if not m:
            continue
        # walk up over attributes / comments
        j = i - 1
        attrs, comments = [], []
        while j >= 0 and (lines[j].strip().startswith('#[') or lines[j].strip().startswith('//') or lines[j].strip() == ''):
            if lines[j].strip() == '':
                break
            (attrs if lines[j].strip().startswith('#[') else comments).append(lines[j].strip())
            j -= 1
        if not any('kani::proof' in a for a in attrs):
            continue
        if any(re.search(r'cfg\((verif_|any\(\))', a) for a in attrs):
            continue   # written but not closed: compiled out, not registered
        name = m.group(2)
        tier, kind, bound, also = 'quick', 'complete', '', []
        for c in comments:
            al = re.search(r'ALSO:\s*((?:C\d\d[ ,]*)+)', c)
            if al:
                also = re.findall(r'C\d\d', al.group(1))
            t = re.search(r'TIER:\s*(quick!?|thorough)', c)
            if t:
                tier = t.group(1)
            k = re.search(r'KIND:\s*(complete|bounded)\s*(\((.*)\))?', c)
            if k:
                kind = k.group(1)
                bound = (k.group(3) or '').strip()
        if name in idx:
            print('duplicate harness name', name, file=sys.stderr)
            sys.exit(1)
        idx[name] = dict(prop='C' + m.group(3), also=also, tier=tier, kind=kind, bound=bound, file=f,
                         expect='known-finding' if re.match(r'c\d\d_kf_', name) else None)
# measured verdicts/timings (./verif expect-update): a harness that did not close there is not registered;
# one that needs more than QUICK_MAX seconds of CBMC is moved to the thorough tier whatever its comment says.
QUICK_MAX = 250
ep = os.path.join(V, 'lib', 'expected.json')
exp = json.load(open(ep)) if os.path.exists(ep) else {}
dropped = []
if '--all' not in sys.argv:
    for name in list(idx):
        e = exp.get(name)
        if e is None:
            dropped.append(name)
            del idx[name]
            continue
        # the measured CBMC time decides the tier (the TIER comment of the author is only a default)
        forced = idx[name]['tier'] == 'quick!'   # `// TIER: quick!` keeps a key harness in the quick tier whatever it costs
        idx[name]['tier'] = 'quick' if (forced or e.get('seconds', 0) <= QUICK_MAX) else 'thorough'
        idx[name]['seconds'] = e.get('seconds')
if dropped:
    print('not registered (no closing run recorded in expected.json):', ', '.join(sorted(dropped)), file=sys.stderr)
# `--all` (every harness in the sources, whatever expected.json says) is a development view: it goes to a side file, the
# registered index lib/harness_index.json is only ever replaced atomically by a complete one
out = os.path.join(V, 'lib', 'harness_index.json')
if '--all' in sys.argv:
    out = os.path.join(V, '.cache', 'harness_index.all.json')
    os.makedirs(os.path.dirname(out), exist_ok=True)
json.dump(idx, open(out + '.tmp', 'w'), indent=1, sort_keys=True)
os.replace(out + '.tmp', out)
byp = {}
for k, v in idx.items():
    byp.setdefault(v['prop'], []).append(k)
print('harness_index.json:', len(idx), 'harnesses;', ', '.join('%s:%d' % (p, len(v)) for p, v in sorted(byp.items())))
