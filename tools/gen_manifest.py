#!/usr/bin/env python3
"""Regenerate MANIFEST.json from lib/registry.py + tools/manifest_meta.json (development helper)."""
import json, os, subprocess, sys
V = os.path.dirname(os.path.dirname(os.path.abspath(__file__)))
sys.path.insert(0, os.path.join(V, 'lib'))
from registry import PROPS
meta = json.load(open(os.path.join(V, 'tools', 'manifest_meta.json')))
hooks = subprocess.run(['git', '-C', '/repo', 'log', '--format=%h %s', '--grep=^verif hooks'], capture_output=True, text=True).stdout.strip().splitlines()
checks = []
for pid in sorted(PROPS):
    P = PROPS[pid]
    m = meta['checks'].get(pid, {})
    checks.append(dict(
        property_id=pid,
        quick_cmd='./verif check %s --tier quick' % pid,
        thorough_cmd='./verif check %s --tier thorough' % pid,
        evidence_file='/verif/evidence/%s.json' % pid,
        replay_cmd_template='./verif replay {path}',
        engine='verif',
        level_claimed=dict(category=m.get('category', 'proof'), text=m.get('text', P.get('scope', '')), design_ref=m.get('design_ref', 'DESIGN.md §4 ' + pid)),
        level_note=m.get('note', ''),
        technique=m.get('technique', 'contract-based deductive verification: step contracts on the real functions discharged by Kani/CBMC (bit-precise, full symbolic domain) and Verus/Z3 on mechanically extracted text'),
    ))
na = [dict(property_id=k, reason=v) for k, v in sorted(meta['not_applicable'].items()) if k not in PROPS]
man = dict(
    version=1,
    setup_cmd='./verif setup',
    hooks=dict(
        guard='cfg(kani)',
        enable='set by the Kani compiler only (cargo kani / cargo kani playback) with RS_MATTER_VERIF_DIR=/verif/kani; each hook is `#[cfg(kani)] mod verif_kani { use super::*; include!(concat!(env!("RS_MATTER_VERIF_DIR"), "/<module>.rs")); }` appended to a module, plus one `cargo:rustc-check-cfg=cfg(kani)` line in rs-matter/build.rs',
        baseline_off_cmd='cd /repo && cargo nextest run --workspace --no-fail-fast --test-threads 8 --offline || cargo test --workspace --no-fail-fast --offline',
        source_commits=[h.split()[0] for h in hooks],
        add_only=True,
    ),
    engines=[dict(name='verif', path='/verif/verif', serves_properties=sorted(PROPS), kind_free_text='Python driver: Track K = shared `cargo kani --only-codegen` build of /repo + per-harness goto-instrument/CBMC pipeline + native replay via `cargo kani playback`; Track V = mechanical extraction of real function text into single-file Verus units')],
    checks=checks,
    notes=meta.get('notes', ''),
    not_applicable=na,
)
json.dump(man, open(os.path.join(V, 'MANIFEST.json'), 'w'), indent=1)
print('MANIFEST.json:', len(checks), 'checks,', len(na), 'not applicable')
