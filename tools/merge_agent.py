#!/usr/bin/env python3
"""Merge an agent's harness files (/scratch/<agent>/kani/*.rs) into /verif/kani.
Each author wraps its text in top-level `mod cNN... { }` blocks; a block replaces the block of the same
name in the target file or is appended. Text outside such blocks (other than comments) is reported."""
import os, re, sys
V = os.path.dirname(os.path.dirname(os.path.abspath(__file__)))
sys.path.insert(0, os.path.join(V, 'lib'))
from rusttok import tokenize, match_close

def blocks(text):
    toks = tokenize(text)
    out, rest = {}, []
    i, depth = 0, 0
    n = len(toks)
    last = 0
    while i < n:
        t = toks[i]
        if t.kind == 'punct' and t.text in '{([':
            depth += 1
        elif t.kind == 'punct' and t.text in '})]':
            depth -= 1
        elif depth == 0 and t.kind == 'ident' and t.text == 'mod':
            j = i + 1
            while toks[j].kind == 'ws': j += 1
            name = toks[j].text
            k = j + 1
            while toks[k].kind in ('ws', 'comment', 'doc'): k += 1
            if toks[k].text == '{':
                close = match_close(toks, k)
                # include visibility and attributes directly attached: `#[..] pub(crate) mod`
                b = i - 1
                def skip_ws(b):
                    while b >= 0 and toks[b].kind == 'ws' and toks[b].text.count('\n') <= 1:
                        b -= 1
                    return b
                start_tok = i
                while True:
                    b2 = skip_ws(b)
                    if b2 >= 0 and toks[b2].kind == 'punct' and toks[b2].text == ')':
                        # pub(...)
                        d = 0; q = b2
                        while q >= 0:
                            if toks[q].text == ')': d += 1
                            elif toks[q].text == '(':
                                d -= 1
                                if d == 0: break
                            q -= 1
                        q2 = skip_ws(q - 1)
                        if q2 >= 0 and toks[q2].text == 'pub':
                            start_tok = q2; b = q2 - 1; continue
                        break
                    if b2 >= 0 and toks[b2].kind == 'ident' and toks[b2].text == 'pub':
                        start_tok = b2; b = b2 - 1; continue
                    if b2 >= 0 and toks[b2].kind == 'punct' and toks[b2].text == ']':
                        d = 0; q = b2
                        while q >= 0:
                            if toks[q].text == ']': d += 1
                            elif toks[q].text == '[':
                                d -= 1
                                if d == 0: break
                            q -= 1
                        if q - 1 >= 0 and toks[q - 1].text == '#':
                            start_tok = q - 1; b = q - 2; continue
                        break
                    break
                s = toks[start_tok].s
                rest.append(text[last:s])
                out[name] = text[s:toks[close].e]
                last = toks[close].e
                i = close + 1
                continue
        i += 1
    rest.append(text[last:])
    return out, ''.join(rest)

agent = sys.argv[1]
src = '/scratch/%s/kani' % agent
only = set(sys.argv[2:])
for f in sorted(os.listdir(src)):
    if not f.endswith('.rs'): continue
    a = open(os.path.join(src, f)).read()
    tp = os.path.join(V, 'kani', f)
    t = open(tp).read() if os.path.exists(tp) else ''
    if a == t: continue
    ab, arest = blocks(a)
    tb, trest = blocks(t)
    stray = [l for l in arest.split('\n') if l.strip() and not l.strip().startswith('//')]
    tstray = [l for l in trest.split('\n') if l.strip() and not l.strip().startswith('//')]
    changed = []
    for name, body in ab.items():
        if only and name not in only: continue
        if not re.match(r'c\d\d', name): continue
        if tb.get(name) == body: continue
        if name in tb:
            t = t.replace(tb[name], body)
            changed.append(name + '(replaced)')
        else:
            if not t.endswith('\n'): t += '\n'
            t += '\n' + body + '\n'
            changed.append(name + '(added)')
    if changed:
        open(tp, 'w').write(t)
    print('%-50s %s%s' % (f, ', '.join(changed) or 'no block changes', ('  STRAY top-level text in agent file: %d lines' % len(stray)) if stray and stray != tstray else ''))
