#!/usr/bin/env python3
"""Merge an agent's harness files (/scratch/<agent>/kani/*.rs) into /verif/kani.
Each author wraps its text in top-level `mod cNN... { }` blocks; a block replaces the block of the same
name in the target file or is appended. Text outside such blocks (other than comments) is reported."""
import os, re, sys
V = os.path.dirname(os.path.dirname(os.path.abspath(__file__)))
sys.path.insert(0, os.path.join(V, 'lib'))
from rusttok import tokenize, match_close

def blocks(text):
    toks = tokenize(text)
    out, rest = {}, []
    i, depth = 0, 0
    n = len(toks)
    last = 0
    while i < n:
        t = toks[i]
        if t.kind == 'punct' and t.text in '{([':
            depth += 1
        elif t.kind == 'punct' and t.text in '})]':
            depth -= 1
        elif depth == 0 and t.kind == 'ident' and t.text == 'mod':
            j = i + 1
            while toks[j].kind == 'ws': j += 1
            name = toks[j].text
            k = j + 1
            while toks[k].kind in ('ws', 'comment', 'doc'): k += 1
            if toks[k].text == '{':
                close = match_close(toks, k)
                # include preceding attributes/comments directly attached
                s = t.s
                b = i - 1
                while b >= 0 and (toks[b].kind in ('ws', 'comment', 'doc') or False):
                    if toks[b].kind == 'ws' and toks[b].text.count('\n') > 1:
                        break
                    b -= 1
                # attributes: #[...] or pub before mod
                s = toks[b + 1].s if b + 1 < i else t.s
                while text[s:s+1].isspace(): s += 1
                rest.append(text[last:s])
                out[name] = text[s:toks[close].e]
                last = toks[close].e
                i = close + 1
                continue
        i += 1
    rest.append(text[last:])
    return out, ''.join(rest)

agent = sys.argv[1]
src = '/scratch/%s/kani' % agent
only = set(sys.argv[2:])
for f in sorted(os.listdir(src)):
    if not f.endswith('.rs'): continue
    a = open(os.path.join(src, f)).read()
    tp = os.path.join(V, 'kani', f)
    t = open(tp).read() if os.path.exists(tp) else ''
    if a == t: continue
    ab, arest = blocks(a)
    tb, trest = blocks(t)
    stray = [l for l in arest.split('\n') if l.strip() and not l.strip().startswith('//')]
    tstray = [l for l in trest.split('\n') if l.strip() and not l.strip().startswith('//')]
    changed = []
    for name, body in ab.items():
        if only and name not in only: continue
        if not re.match(r'c\d\d', name): continue
        if tb.get(name) == body: continue
        if name in tb:
            t = t.replace(tb[name], body)
            changed.append(name + '(replaced)')
        else:
            if not t.endswith('\n'): t += '\n'
            t += '\n' + body + '\n'
            changed.append(name + '(added)')
    if changed:
        open(tp, 'w').write(t)
    print('%-50s %s%s' % (f, ', '.join(changed) or 'no block changes', ('  STRAY top-level text in agent file: %d lines' % len(stray)) if stray and stray != tstray else ''))
