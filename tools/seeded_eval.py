#!/usr/bin/env python3
"""Run the registered check of each seeded change against it: apply /verif/seeded/<id>/patch.diff to /repo,
run `./verif check <prop> --tier <tier>`, undo the patch straight afterwards, record the outcome in
/verif/seeded/<id>/result.json.   usage: seeded_eval.py [--tier quick|thorough] [<id> ...]"""
import json, os, subprocess, sys, time
V = os.path.dirname(os.path.dirname(os.path.abspath(__file__)))
tier = 'quick'
args = sys.argv[1:]
REPO = '/repo'
env = dict(os.environ)
if '--worktree' in args:
    # evaluation on a scratch worktree of /repo with its own Kani target (several evaluations can then run in parallel)
    i = args.index('--worktree'); REPO = args[i + 1]; del args[i:i + 2]
    env['VERIF_REPO'] = REPO
if '--target' in args:
    i = args.index('--target'); env['VERIF_KANI_TARGET'] = args[i + 1]; env['VERIF_KANI_PLAYBACK_TARGET'] = args[i + 1] + '-playback'; del args[i:i + 2]
if '--cache' in args:
    i = args.index('--cache'); env['VERIF_CACHE_DIR'] = args[i + 1]; del args[i:i + 2]
if '--evidence' in args:
    i = args.index('--evidence'); env['VERIF_EVIDENCE_DIR'] = args[i + 1]; del args[i:i + 2]
if '--tier' in args:
    i = args.index('--tier'); tier = args[i + 1]; del args[i:i + 2]
ids = args or sorted(d for d in os.listdir(os.path.join(V, 'seeded')) if os.path.isdir(os.path.join(V, 'seeded', d)))
dirty = subprocess.run(['git', '-C', REPO, 'status', '--porcelain', '--untracked-files=no'], capture_output=True, text=True).stdout.strip()
if dirty:
    print('refusing: %s has local changes:\n' % REPO + dirty); sys.exit(2)
for sid in ids:
    d = os.path.join(V, 'seeded', sid)
    meta = json.load(open(os.path.join(d, 'meta.json')))
    patch = os.path.join(d, 'patch.diff')
    r = subprocess.run(['git', '-C', REPO, 'apply', '--check', patch], capture_output=True, text=True)
    if r.returncode != 0:
        print(sid, 'patch does not apply:', r.stderr.strip()[:300]); continue
    subprocess.run(['git', '-C', REPO, 'apply', patch], check=True)
    t0 = time.time()
    try:
        res = {}
        for prop in meta.get('properties', [meta.get('property')]):
            p = subprocess.run([os.path.join(V, 'verif'), 'check', prop, '--tier', tier], capture_output=True, text=True, cwd=V, env=env)
            lines = [l for l in p.stdout.splitlines() if l.startswith(('VIOLATION', 'UNDECIDED', 'OK', 'KNOWN-FINDING'))]
            res[prop] = dict(exit=p.returncode, lines=lines)
            print('%-28s %-4s exit=%d %s' % (sid, prop, p.returncode, ' | '.join(l[:160] for l in lines if not l.startswith('KNOWN'))[:400]))
    finally:
        subprocess.run(['git', '-C', REPO, 'checkout', '--', '.'], check=True)
    json.dump(dict(id=sid, tier=tier, evaluated_on=REPO, wall_s=round(time.time() - t0, 1), detected=any(v['exit'] == 1 for v in res.values()), results=res,
                   verif_commit=subprocess.run(['git', '-C', V, 'rev-parse', '--short', 'HEAD'], capture_output=True, text=True).stdout.strip()),
              open(os.path.join(d, 'result.json'), 'w'), indent=1)
# restore evidence of the unchanged tree is the caller's job (re-run the checks)
