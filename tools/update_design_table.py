#!/usr/bin/env python3
"""Regenerate the table between the CATCH-TABLE markers of DESIGN.md from seeded/*/{meta,confirm,result}.json."""
import os, re, subprocess
V = os.path.dirname(os.path.dirname(os.path.abspath(__file__)))
t = subprocess.run(['python3', os.path.join(V, 'tools', 'catch_table.py')], capture_output=True, text=True, check=True).stdout
p = os.path.join(V, 'DESIGN.md')
s = open(p).read()
s = re.sub(r'<!-- CATCH-TABLE-BEGIN -->.*<!-- CATCH-TABLE-END -->', lambda m: '<!-- CATCH-TABLE-BEGIN -->\n' + t + '<!-- CATCH-TABLE-END -->', s, flags=re.S)
open(p, 'w').write(s)
