#!/usr/bin/env python3
"""dev: run one Verus unit and print the verdicts + raw errors"""
import sys, os, json
sys.path.insert(0, os.path.join(os.path.dirname(os.path.dirname(os.path.abspath(__file__))), 'lib'))
import verustrack
from common import run
r = verustrack.run_unit(sys.argv[1])
print('STATUS', r['status'], r.get('reason', ''))
for o in r['obligations']:
    print('  %-10s L%s %s twin=%s' % (o['verdict'], o['layer'], o['name'], o.get('kani_twin')))
    if o.get('message') and '-v' in sys.argv:
        print(o['message'])
if '-e' in sys.argv and r.get('generated'):
    rc, so, se, _ = run(['verus', r['generated'], '--multiple-errors', '10', '--rlimit', '60'], cwd=os.path.dirname(r['generated']))
    print(se[-8000:])
