// Track V unit `checkin` (property C12): CheckInCounter extracted verbatim from
// rs-matter/src/sc/checkin.rs. Layer A: each operation refines a transition of the abstract
// epoch machine over unbounded logical positions. Layer B: for every sequence of uses, stores and
// restarts (a restart may follow ANY event) the logical positions handed out strictly increase,
// provided the application stores the boundary when the interface tells it to - the proviso the
// statement itself makes for this counter.
use vstd::prelude::*;

verus! {

pub spec const M32: int = 0x1_0000_0000;

/// machine value of a logical position
pub open spec fn val_of(l: int) -> int { l % M32 }

/// Refinement relation: the machine counter `c` represents logical value `l` and logical boundary `b`.
pub open spec fn repr(c: CheckInCounter, l: int, b: int) -> bool {
    &&& 0 <= l < b <= l + c.epoch
    &&& c.epoch > 0
    &&& c.value as int == l % M32
    &&& c.next_epoch as int == b % M32
}

proof fn lemma_mod_add(a: int, k: int)
    requires 0 <= a, 0 <= k < M32,
    ensures (a + k) % M32 == ((a % M32) + k) % M32,
{
    assert((a + k) % M32 == ((a % M32) + k) % M32) by (nonlinear_arith)
        requires 0 <= a, 0 <= k, M32 == 0x1_0000_0000;
}

proof fn lemma_mod_diff(l: int, b: int)
    requires 0 <= l < b, b - l < M32,
    ensures ((b % M32) - (l % M32)) % M32 == b - l,
        (b % M32) >= (l % M32) ==> (b % M32) - (l % M32) == b - l,
        (b % M32) < (l % M32) ==> (b % M32) - (l % M32) + M32 == b - l,
{
    assert(((b % M32) - (l % M32)) % M32 == b - l
        && ((b % M32) >= (l % M32) ==> (b % M32) - (l % M32) == b - l)
        && ((b % M32) < (l % M32) ==> (b % M32) - (l % M32) + M32 == b - l)) by (nonlinear_arith)
        requires 0 <= l < b, b - l < M32, M32 == 0x1_0000_0000;
}

proof fn lemma_mod_eq(l: int, b: int)
    requires 0 <= l < b, b - l < M32, l % M32 == b % M32,
    ensures false,
{
    assert(false) by (nonlinear_arith)
        requires 0 <= l < b, b - l < M32, l % M32 == b % M32, M32 == 0x1_0000_0000;
}

//@src rs-matter/src/sc/checkin.rs
//@item struct CheckInCounter

impl CheckInCounter {
//@fn CheckInCounter::new ret=r twin=c12_checkin_new
//@+ requires epoch != 0,
//@+ ensures r.value == start, r.epoch == epoch, r.next_epoch as int == (start + epoch) % M32,
//@+     forall|l: int| 0 <= l && #[trigger] val_of(l) == start ==> repr(r, l, l + epoch),
//@at before "Self {"
//@+ proof { assert forall|l: int| 0 <= l && #[trigger] val_of(l) == start implies (l + epoch) % M32 == (start + epoch) % M32 by { lemma_mod_add(l, epoch as int); } }

//@fn CheckInCounter::next ret=r twin=c12_checkin_advance
//@+ ensures r as int == (self.value + 1) % M32,
//@+     forall|l: int, b: int| repr(*self, l, b) ==> r as int == (l + 1) % M32,
//@at before "self.value.wrapping_add(1)"
//@+ proof { assert forall|l: int, b: int| repr(*self, l, b) implies (self.value + 1) % M32 == (l + 1) % M32 by { lemma_mod_add(l, 1); } }

//@fn CheckInCounter::advance ret=r twin=c12_checkin_advance
//@+ ensures
//@+     final(self).epoch == old(self).epoch,
//@+     // refinement of the abstract `use` transition, for every logical interpretation of the old state
//@+     forall|l: int, b: int| repr(*old(self), l, b) ==> {
//@+         &&& (l + 1 == b ==> repr(*final(self), l + 1, b + old(self).epoch) && r == Some(final(self).next_epoch))
//@+         &&& (l + 1 < b ==> repr(*final(self), l + 1, b) && r.is_none() && final(self).next_epoch == old(self).next_epoch)
//@+     },
//@at before "if self.value == self.next_epoch {"
//@+ proof {
//@+     assert forall|l: int, b: int| repr(*old(self), l, b) implies (self.value as int == (l + 1) % M32 && ((self.value == self.next_epoch) <==> (l + 1 == b))) by {
//@+         lemma_mod_add(l, 1);
//@+         if l + 1 < b && (l + 1) % M32 == b % M32 { lemma_mod_eq(l + 1, b); }
//@+     }
//@+ }
//@at after "self.next_epoch = self.next_epoch.wrapping_add(self.epoch);"
//@+ proof { assert forall|l: int, b: int| repr(*old(self), l, b) implies self.next_epoch as int == (b + old(self).epoch) % M32 by { lemma_mod_add(b, old(self).epoch as int); } }

//@fn CheckInCounter::advance_by ret=r twin=c12_checkin_advance_by
//@+ ensures
//@+     final(self).epoch == old(self).epoch,
//@+     forall|l: int, b: int| repr(*old(self), l, b) ==> {
//@+         &&& (delta >= b - l ==> repr(*final(self), l + delta, l + delta + old(self).epoch) && r == Some(final(self).next_epoch))
//@+         &&& (delta < b - l ==> repr(*final(self), l + delta, b) && r.is_none() && final(self).next_epoch == old(self).next_epoch)
//@+     },
//@at after "let dist_to_boundary = self.next_epoch.wrapping_sub(self.value);"
//@+ proof {
//@+     assert forall|l: int, b: int| repr(*old(self), l, b) implies dist_to_boundary as int == b - l by {
//@+         lemma_mod_diff(l, b);
//@+     }
//@+ }
//@at after "self.value = self.value.wrapping_add(delta);"
//@+ proof { assert forall|l: int, b: int| repr(*old(self), l, b) implies self.value as int == (l + delta) % M32 by { lemma_mod_add(l, delta as int); } }
//@at after "self.next_epoch = self.value.wrapping_add(self.epoch);"
//@+ proof { assert forall|l: int, b: int| repr(*old(self), l, b) implies self.next_epoch as int == (l + delta + old(self).epoch) % M32 by { lemma_mod_add(l, delta as int); lemma_mod_add(l + delta, old(self).epoch as int); } }

//@fn CheckInCounter::persist_value ret=r
//@+ ensures r == self.next_epoch,
}

// ---- layer B: the abstract epoch machine --------------------------------------------------------

pub struct Abs {
    pub l: int,        // logical live value (last value used)
    pub b: int,        // logical in-memory boundary
    pub d: int,        // logical durable boundary (what is in storage)
    pub e: int,        // epoch
    pub pending: bool, // the interface has told the application to store `b` and it has not done so yet
    pub m: int,        // ghost: greatest logical value handed out so far
}

pub open spec fn inv(s: Abs) -> bool {
    &&& 0 < s.e
    &&& 0 <= s.m <= s.l < s.b <= s.l + s.e
    &&& s.m <= s.d <= s.b
    &&& (!s.pending ==> s.d == s.b)
}

pub enum Ev { Use, Store, Restart, Jump(nat) }

/// `Use` is only enabled when nothing is pending (the interface contract: "MUST be persisted before
/// any further Check-In is sent"); `Store` and `Restart` are always enabled.
pub open spec fn enabled(s: Abs, ev: Ev) -> bool {
    match ev { Ev::Use => !s.pending, _ => true }
}

pub open spec fn step(s: Abs, ev: Ev) -> Abs {
    match ev {
        Ev::Use => if s.l + 1 == s.b {
            Abs { l: s.l + 1, b: s.b + s.e, pending: true, m: s.l + 1, ..s }
        } else {
            Abs { l: s.l + 1, m: s.l + 1, ..s }
        },
        Ev::Store => Abs { d: s.b, pending: false, ..s },
        // CheckInCounter::new(stored boundary): resume AT the boundary; a new boundary must be stored
        Ev::Restart => Abs { l: s.d, b: s.d + s.e, pending: true, ..s },
        // advance_by(delta): invalidate outstanding values in one step
        Ev::Jump(k) => if k >= s.b - s.l {
            Abs { l: s.l + k, b: s.l + k + s.e, pending: true, ..s }
        } else {
            Abs { l: s.l + k, ..s }
        },
    }
}

/// The value put on the wire by `Use` (logical position).
pub open spec fn used(s: Abs) -> int { s.l + 1 }

proof fn lemma_step(s: Abs, ev: Ev)
    requires inv(s), enabled(s, ev),
    ensures inv(step(s, ev)),
        ev == Ev::Use ==> used(s) > s.m && used(s) <= s.d && step(s, ev).m == used(s),
        ev != Ev::Use ==> step(s, ev).m == s.m,
{
}

pub open spec fn run(s: Abs, evs: Seq<Ev>) -> Abs
    decreases evs.len(),
{
    if evs.len() == 0 { s } else { step(run(s, evs.drop_last()), evs.last()) }
}

pub open spec fn all_enabled(s: Abs, evs: Seq<Ev>) -> bool
    decreases evs.len(),
{
    evs.len() == 0 || (all_enabled(s, evs.drop_last()) && enabled(run(s, evs.drop_last()), evs.last()))
}

/// For every schedule of uses, stores and restarts (restart after any event): the invariant holds,
/// hence every value handed out is strictly greater than every value handed out before - in this run
/// or in any earlier one - and was covered by the durable boundary when it was used.
proof fn lemma_run(s: Abs, evs: Seq<Ev>)
    requires inv(s), all_enabled(s, evs),
    ensures inv(run(s, evs)), run(s, evs).m >= s.m,
    decreases evs.len(),
{
    if evs.len() > 0 {
        lemma_run(s, evs.drop_last());
        lemma_step(run(s, evs.drop_last()), evs.last());
    }
}

proof fn lemma_never_twice(s: Abs, evs: Seq<Ev>, i: int, j: int)
    requires inv(s), all_enabled(s, evs), 0 <= i < j < evs.len(), evs[i] == Ev::Use, evs[j] == Ev::Use,
    ensures used(run(s, evs.subrange(0, i))) < used(run(s, evs.subrange(0, j))),
{
    let pi = evs.subrange(0, i);
    let pj = evs.subrange(0, j);
    lemma_prefix_enabled(s, evs, i + 1);
    lemma_prefix_enabled(s, evs, j + 1);
    lemma_prefix_enabled(s, evs, j);
    let qi = evs.subrange(0, i + 1);
    assert(qi.drop_last() =~= pi);
    assert(qi.last() == evs[i]);
    lemma_run(s, pi);
    lemma_step(run(s, pi), Ev::Use);
    // run(s, qi).m == used(run(s, pi)); from qi to pj the ghost maximum only grows
    lemma_run_split(s, evs, i + 1, j);
    let qj = evs.subrange(0, j + 1);
    assert(qj.drop_last() =~= pj);
    lemma_run(s, pj);
    lemma_step(run(s, pj), Ev::Use);
}

proof fn lemma_prefix_enabled(s: Abs, evs: Seq<Ev>, k: int)
    requires all_enabled(s, evs), 0 <= k <= evs.len(),
    ensures all_enabled(s, evs.subrange(0, k)),
    decreases evs.len() - k,
{
    if k < evs.len() {
        lemma_prefix_enabled(s, evs, k + 1);
        let q = evs.subrange(0, k + 1);
        assert(q.drop_last() =~= evs.subrange(0, k));
    } else {
        assert(evs.subrange(0, k) =~= evs);
    }
}

proof fn lemma_run_split(s: Abs, evs: Seq<Ev>, a: int, b: int)
    requires inv(s), all_enabled(s, evs), 0 <= a <= b <= evs.len(),
    ensures run(s, evs.subrange(0, b)).m >= run(s, evs.subrange(0, a)).m, inv(run(s, evs.subrange(0, a))),
    decreases b - a,
{
    lemma_prefix_enabled(s, evs, a);
    lemma_run(s, evs.subrange(0, a));
    if a < b {
        lemma_run_split(s, evs, a, b - 1);
        lemma_prefix_enabled(s, evs, b);
        lemma_prefix_enabled(s, evs, b - 1);
        let q = evs.subrange(0, b);
        assert(q.drop_last() =~= evs.subrange(0, b - 1));
        lemma_run(s, evs.subrange(0, b - 1));
        lemma_step(run(s, evs.subrange(0, b - 1)), evs[b - 1]);
    }
}

proof fn canary_repr_contradictory(c: CheckInCounter, l: int, b: int)
    requires repr(c, l, b),
    ensures false,
{
}

proof fn canary_inv_contradictory(s: Abs)
    requires inv(s),
    ensures false,
{
}

} // verus!

fn main() {}
