// Track V unit `dedup` (property C04): RxCtrState::{new, contains, insert, post_recv} extracted
// verbatim from rs-matter/src/transport/dedup.rs, with the step contract of DESIGN §4/C04 and the
// layer-B induction over arbitrary finite histories.
use vstd::prelude::*;

verus! {

// ---- assumed interface (T6): std functions without a vstd specification
pub assume_specification[ u32::abs_diff ](a: u32, b: u32) -> (r: u32)
    ensures r == (if a >= b { a - b } else { b - a }) as u32;

// ---- abstract view -------------------------------------------------------------------------

/// bit `i` (0..16) of the bitmap: counter `max - 1 - i` has been accepted
pub open spec fn bit(bm: u16, i: int) -> bool
    recommends 0 <= i < 16
{
    (bm >> (i as u16)) & 1u16 == 1u16
}

/// Unicast, encrypted: does the window refuse counter `c`?
pub open spec fn rejects(max: u32, bm: u16, c: u32) -> bool {
    c == max || (c < max && (max - c > 16 || bit(bm, max - c - 1)))
}

/// The step contract of `post_recv(m, is_encrypted = true, with_rollover = false)`, clause by
/// clause from the property statement (DESIGN §4 C04, clauses 1-5).
pub open spec fn post_unicast(omax: u32, obm: u16, m: u32, r: bool, nmax: u32, nbm: u16) -> bool {
    // 1. accepted iff not refused by the old window; a refusal changes nothing
    &&& r == !rejects(omax, obm, m)
    &&& (!r ==> nmax == omax && nbm == obm)
    // 2. never accepted twice
    &&& (r ==> rejects(nmax, nbm, m))
    // 4. newer always / older than the window never
    &&& (m > omax ==> r)
    &&& (r ==> nmax >= omax)
    // 5.+3. exactness: the only counters that become closed are `m` and what fell out of the window
    &&& (r ==> forall|c: u32| #[trigger] rejects(nmax, nbm, c) == (rejects(omax, obm, c) || c == m || (c < nmax && nmax - c > 16)))
}

// ---- bit-vector facts used by the step proof ---------------------------------------------------

proof fn lemma_contains(bm: u16, n: u32)
    requires n < 16,
    ensures ((bm & (1u16 << n)) != 0) == bit(bm, n as int),
{
    let n16 = n as u16;
    assert(((bm & (1u16 << n16)) != 0) == ((bm >> n16) & 1u16 == 1u16)) by (bit_vector)
        requires n16 < 16;
    assert((1u16 << n) == (1u16 << n16)) by (bit_vector)
        requires n < 16, n16 == n as u16;
}

proof fn lemma_insert(bm: u16, n: u32, i: int)
    requires n < 16, 0 <= i < 16,
    ensures bit(bm | (1u16 << n), i) == (bit(bm, i) || i == n),
{
    let n16 = n as u16;
    let i16 = i as u16;
    assert((1u16 << n) == (1u16 << n16)) by (bit_vector)
        requires n < 16, n16 == n as u16;
    assert((((bm | (1u16 << n16)) >> i16) & 1u16 == 1u16) == (((bm >> i16) & 1u16 == 1u16) || i16 == n16)) by (bit_vector)
        requires n16 < 16, i16 < 16;
}

proof fn lemma_shl(bm: u16, d: u32, i: int)
    requires 0 < d < 16, 0 <= i < 16,
    ensures bit(bm << d, i) == (i >= d && bit(bm, i - d)),
{
    let d16 = d as u16;
    let i16 = i as u16;
    assert((bm << d) == (bm << d16)) by (bit_vector)
        requires d < 16, d16 == d as u16;
    if i >= d {
        let k16 = (i - d) as u16;
        assert((((bm << d16) >> i16) & 1u16 == 1u16) == ((bm >> k16) & 1u16 == 1u16)) by (bit_vector)
            requires d16 < 16, i16 < 16, i16 >= d16, k16 == i16 - d16;
    } else {
        assert((((bm << d16) >> i16) & 1u16) == 0u16) by (bit_vector)
            requires d16 < 16, i16 < d16;
    }
}

proof fn lemma_consts(i: int)
    requires 0 <= i < 16,
    ensures bit(0xffffu16, i), !bit(0u16, i), bit(0x8000u16, i) == (i == 15), (1u16 << 15u32) == 0x8000u16,
{
    let i16 = i as u16;
    assert((0xffffu16 >> i16) & 1u16 == 1u16) by (bit_vector) requires i16 < 16;
    assert((0u16 >> i16) & 1u16 == 0u16) by (bit_vector) requires i16 < 16;
    assert(((0x8000u16 >> i16) & 1u16 == 1u16) == (i16 == 15)) by (bit_vector) requires i16 < 16;
    assert((1u16 << 15u32) == 0x8000u16) by (bit_vector);
}

// ---- the real code ---------------------------------------------------------------------------
//@src rs-matter/src/transport/dedup.rs
//@item const MSG_RX_STATE_BITMAP_LEN
//@item struct RxCtrState

impl RxCtrState {
//@fn RxCtrState::new ret=r
//@+ ensures r.max_ctr == max_ctr, r.ctr_bitmap == 0xffffu16,

//@fn RxCtrState::contains ret=r
//@+ requires bit_number < 16,
//@+ ensures r == bit(self.ctr_bitmap, bit_number as int),
//@at before "(self.ctr_bitmap & (1 << bit_number)) != 0"
//@+ proof { lemma_contains(self.ctr_bitmap, bit_number); }

//@fn RxCtrState::insert
//@+ requires bit_number < 16,
//@+ ensures final(self).max_ctr == old(self).max_ctr,
//@+     final(self).ctr_bitmap == old(self).ctr_bitmap | (1u16 << bit_number),
//@+     forall|i: int| 0 <= i < 16 ==> #[trigger] bit(final(self).ctr_bitmap, i) == (bit(old(self).ctr_bitmap, i) || i == bit_number),
//@at after "self.ctr_bitmap |= 1 << bit_number;"
//@+ proof { assert forall|i: int| 0 <= i < 16 implies #[trigger] bit(self.ctr_bitmap, i) == (bit(old(self).ctr_bitmap, i) || i == bit_number) by { lemma_insert(old(self).ctr_bitmap, bit_number, i); } }

//@fn RxCtrState::post_recv ret=r twin=c04_post_recv_unicast_encrypted
//@+ ensures
//@+     (is_encrypted && !with_rollover) ==> post_unicast(old(self).max_ctr, old(self).ctr_bitmap, msg_ctr, r, final(self).max_ctr, final(self).ctr_bitmap),
//@at? after "let index = udiff - 1;"
//@+ proof { if !with_rollover { lemma_window_hit(old(self).max_ctr, old(self).ctr_bitmap, msg_ctr); } }
//@at? after "self.insert(index);"
//@+ proof { if !with_rollover && is_encrypted { lemma_window_insert(old(self).max_ctr, old(self).ctr_bitmap, msg_ctr, self.ctr_bitmap); } }
//@at? after "self.insert(udiff - 1);"
//@+ proof { if !with_rollover && is_encrypted { lemma_forward_small(old(self).max_ctr, old(self).ctr_bitmap, msg_ctr, self.ctr_bitmap); } }
//@at? after "self.ctr_bitmap = 1 << (MSG_RX_STATE_BITMAP_LEN - 1);"
//@+ proof { if !with_rollover && is_encrypted { lemma_forward_16(old(self).max_ctr, old(self).ctr_bitmap, msg_ctr, self.ctr_bitmap); } }
//@at? after "self.ctr_bitmap = 0;"
//@+ proof { if !with_rollover && is_encrypted { lemma_forward_big(old(self).max_ctr, old(self).ctr_bitmap, msg_ctr, self.ctr_bitmap); } }
}

// ---- step lemmas (spec level, about the view) ----------------------------------------------------

proof fn lemma_window_hit(max: u32, bm: u16, m: u32)
    requires m < max, max - m <= 16,
    ensures rejects(max, bm, m) == bit(bm, max - m - 1),
{
}

proof fn lemma_window_insert(max: u32, bm: u16, m: u32, nbm: u16)
    requires m < max, max - m <= 16, !bit(bm, max - m - 1),
        forall|i: int| 0 <= i < 16 ==> #[trigger] bit(nbm, i) == (bit(bm, i) || i == max - m - 1),
    ensures post_unicast(max, bm, m, true, max, nbm),
{
    assert forall|c: u32| #[trigger] rejects(max, nbm, c) == (rejects(max, bm, c) || c == m || (c < max && max - c > 16)) by {
        if c < max && max - c <= 16 {
            assert(bit(nbm, max - c - 1) == (bit(bm, max - c - 1) || max - c - 1 == max - m - 1));
        }
    }
}

proof fn lemma_forward_small(max: u32, bm: u16, m: u32, nbm: u16)
    requires m > max, m - max < 16,
        forall|i: int| 0 <= i < 16 ==> #[trigger] bit(nbm, i) == (bit(bm << ((m - max) as u32), i) || i == m - max - 1),
    ensures post_unicast(max, bm, m, true, m, nbm),
{
    let d = (m - max) as u32;
    assert forall|c: u32| #[trigger] rejects(m, nbm, c) == (rejects(max, bm, c) || c == m || (c < m && m - c > 16)) by {
        if c < m && m - c <= 16 {
            let i = m - c - 1;
            lemma_shl(bm, d, i);
            assert(bit(nbm, i) == (bit(bm << d, i) || i == d - 1));
            if c == max {
            } else if c > max {
                assert(i < d - 1);
            } else {
                assert(i >= d);
                assert(i - d == max - c - 1);
            }
        }
    }
}

proof fn lemma_forward_16(max: u32, bm: u16, m: u32, nbm: u16)
    requires m > max, m - max == 16, nbm == (1u16 << 15u32),
    ensures post_unicast(max, bm, m, true, m, nbm),
{
    assert forall|c: u32| #[trigger] rejects(m, nbm, c) == (rejects(max, bm, c) || c == m || (c < m && m - c > 16)) by {
        if c < m && m - c <= 16 {
            lemma_consts(m - c - 1);
        }
    }
}

proof fn lemma_forward_big(max: u32, bm: u16, m: u32, nbm: u16)
    requires m > max, m - max > 16, nbm == 0u16,
    ensures post_unicast(max, bm, m, true, m, nbm),
{
    assert forall|c: u32| #[trigger] rejects(m, nbm, c) == (rejects(max, bm, c) || c == m || (c < m && m - c > 16)) by {
        if c < m && m - c <= 16 {
            lemma_consts(m - c - 1);
        }
    }
}

// ---- layer B: every finite history ---------------------------------------------------------------

/// A history: states s[0..=n], received counters m[0..n], results r[0..n], each step satisfying the
/// step contract (and nothing else - this lemma never looks at code).
pub open spec fn history(smax: Seq<u32>, sbm: Seq<u16>, m: Seq<u32>, r: Seq<bool>) -> bool {
    &&& smax.len() == m.len() + 1
    &&& sbm.len() == smax.len()
    &&& r.len() == m.len()
    &&& forall|i: int| 0 <= i < m.len() ==> #[trigger] post_unicast(smax[i], sbm[i], m[i], r[i], smax[i + 1], sbm[i + 1])
}

/// What is closed after `k` steps is exactly: closed initially, or accepted in the meantime, or
/// fallen out of the window (more than 16 below the current maximum).
proof fn lemma_history(smax: Seq<u32>, sbm: Seq<u16>, m: Seq<u32>, r: Seq<bool>, k: int, c: u32)
    requires history(smax, sbm, m, r), 0 <= k <= m.len(),
    ensures
        rejects(smax[k], sbm[k], c) == (rejects(smax[0], sbm[0], c)
            || (exists|i: int| 0 <= i < k && r[i] && #[trigger] m[i] == c)
            || (c < smax[k] && smax[k] - c > 16)),
        smax[k] >= smax[0],
    decreases k,
{
    if k > 0 {
        lemma_history(smax, sbm, m, r, k - 1, c);
        let p = k - 1;
        assert(post_unicast(smax[p], sbm[p], m[p], r[p], smax[p + 1], sbm[p + 1]));
        assert(smax[p + 1] == smax[k] && sbm[p + 1] == sbm[k]);
        if r[k - 1] {
            assert(rejects(smax[k], sbm[k], c) == (rejects(smax[k - 1], sbm[k - 1], c) || c == m[k - 1] || (c < smax[k] && smax[k] - c > 16)));
            if c == m[k - 1] {
                assert(r[k - 1] && m[k - 1] == c);
            }
        }
    }
}

/// Corollary 1: no counter value is ever accepted twice.
proof fn lemma_at_most_once(smax: Seq<u32>, sbm: Seq<u16>, m: Seq<u32>, r: Seq<bool>, i: int, j: int)
    requires history(smax, sbm, m, r), 0 <= i < j < m.len(), r[i], r[j],
    ensures m[i] != m[j],
{
    lemma_history(smax, sbm, m, r, j, m[j]);
    assert(post_unicast(smax[j], sbm[j], m[j], r[j], smax[j + 1], sbm[j + 1]));
    if m[i] == m[j] {
        assert(r[i] && m[i] == m[j]);
        assert(rejects(smax[j], sbm[j], m[j]));
    }
}

/// Corollary 2: a value inside the window that was not accepted yet (and was not closed initially)
/// is accepted, whatever jumps happened before; a value greater than everything so far is accepted.
proof fn lemma_first_time_accepted(smax: Seq<u32>, sbm: Seq<u16>, m: Seq<u32>, r: Seq<bool>, j: int)
    requires history(smax, sbm, m, r), 0 <= j < m.len(),
        !rejects(smax[0], sbm[0], m[j]),
        forall|i: int| 0 <= i < j && r[i] ==> m[i] != m[j],
        !(m[j] < smax[j] && smax[j] - m[j] > 16),
    ensures r[j],
{
    lemma_history(smax, sbm, m, r, j, m[j]);
    assert(post_unicast(smax[j], sbm[j], m[j], r[j], smax[j + 1], sbm[j + 1]));
}

/// Corollary 3: a value older than the window is never accepted.
proof fn lemma_too_old_refused(smax: Seq<u32>, sbm: Seq<u16>, m: Seq<u32>, r: Seq<bool>, j: int)
    requires history(smax, sbm, m, r), 0 <= j < m.len(), m[j] < smax[j], smax[j] - m[j] > 16,
    ensures !r[j],
{
    assert(post_unicast(smax[j], sbm[j], m[j], r[j], smax[j + 1], sbm[j + 1]));
}

/// Vacuity canary: the step contract is satisfiable (must FAIL to verify).
proof fn canary_post_unicast_contradictory(omax: u32, obm: u16, m: u32, r: bool, nmax: u32, nbm: u16)
    requires post_unicast(omax, obm, m, r, nmax, nbm),
    ensures false,
{
}

} // verus!

fn main() {}
