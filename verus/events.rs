// Track V unit `events` (property C12): EventsInner::next_event_number extracted verbatim from
// rs-matter/src/im/events.rs.
// T7 (struct projection): `EventsInner` is declared with only the field the function touches.
// T6: `Persist::store_tlv` is an assumed contract: Ok => the durable epoch value becomes the
// argument; Err => it is unchanged (KV store behaviour; the key/TLV framing is not modelled).
use vstd::prelude::*;

verus! {

#[derive(Debug)]
pub struct Error;
pub trait KvBlobStoreAccess { }
pub type EventNumber = u64;
pub const EVENT_EPOCH_KEY: u16 = 0;  // T6: the key value is irrelevant to the contract

#[verifier::external_body]
#[verifier::reject_recursive_types(S)]
pub struct Persist<S> { _s: core::marker::PhantomData<S> }

impl<S> Persist<S> {
    /// ghost view: the epoch value currently in durable storage (0 = key absent)
    pub uninterp spec fn durable(&self) -> int;

    #[verifier::external_body]
    pub fn store_tlv(&mut self, key: u16, tlv: u64) -> (r: Result<(), Error>)
        ensures
            r.is_ok() ==> final(self).durable() == tlv,
            r.is_err() ==> final(self).durable() == old(self).durable(),
    {
        unimplemented!()
    }
}

pub struct EventsInner {
    pub next_event_number: EventNumber,
}

pub spec const E: int = 10000;

/// Representation invariant linking the live counter `n` to the durable epoch value `d`:
/// the durable value is an epoch start (or absent), and the number about to be handed out is either
/// covered by it or sits on an epoch start (in which case the function stores first).
pub open spec fn inv(n: int, d: int) -> bool {
    &&& 1 <= n
    &&& d >= 0 && d % E == 0
    // n == 1 only on a device whose key is absent (fresh / factory reset); on an epoch start the live
    // counter IS the durable value (it got there by +1 from below, or by resuming at it)
    &&& ((n == 1 && d == 0) || n == d || (1 < n < d && d - n < E))
}

//@src rs-matter/src/im/events.rs
//@item const EVENT_NUMBER_EPOCH_SIZE

impl EventsInner {
//@fn EventsInner::next_event_number ret=r
//@+ requires
//@+     inv(old(self).next_event_number as int, old(persist).durable()),
//@+     old(self).next_event_number < 0xffff_ffff_ffff_0000,   // horizon: 2^64 events are out of scope (stated, not hidden)
//@+ ensures
//@+     // a failed store hands nothing out and changes nothing
//@+     r.is_err() ==> final(self).next_event_number == old(self).next_event_number && final(persist).durable() == old(persist).durable(),
//@+     r.is_ok() ==> {
//@+         &&& r.unwrap() == old(self).next_event_number
//@+         &&& final(self).next_event_number == old(self).next_event_number + 1
//@+         // the number handed out is covered by what is durable NOW (stored before use)
//@+         &&& (r.unwrap() as int) < final(persist).durable()
//@+         &&& final(persist).durable() >= old(persist).durable()
//@+         &&& inv(final(self).next_event_number as int, final(persist).durable())
//@+     },
//@at? after "let event_number = self.next_event_number;"
//@+ proof { lemma_epoch(event_number as int, persist.durable()); }
}

proof fn lemma_epoch(n: int, d: int)
    requires inv(n, d),
    ensures (n != 1 && n % E == 0) <==> n == d,
        n == d ==> (n + E) % E == 0 && n >= E,
        E % E == 0,
{
    assert(((n != 1 && n % E == 0) <==> n == d) && (n == d ==> (n + E) % E == 0 && n >= E) && E % E == 0) by (nonlinear_arith)
        requires 1 <= n, d >= 0, d % E == 0, ((n == 1 && d == 0) || n == d || (1 < n < d && d - n < E)), E == 10000;
}

// ---- layer B -------------------------------------------------------------------------------------------

pub struct Abs { pub n: int, pub d: int, pub m: int }   // m: ghost, greatest number handed out so far

pub open spec fn ainv(s: Abs) -> bool { inv(s.n, s.d) && s.m >= 0 && s.m < s.n && (s.m < s.d || s.m == 0) }

pub enum Ev { Emit, EmitStoreFails, Restart }

pub open spec fn step(s: Abs, ev: Ev) -> Abs {
    match ev {
        Ev::Emit => Abs { n: s.n + 1, d: if s.n == 1 { E } else if s.n == s.d { s.n + E } else { s.d }, m: s.n },
        Ev::EmitStoreFails => s,
        // load_persist: resume AT the durable epoch value (1 when the key is absent)
        Ev::Restart => Abs { n: if s.d == 0 { 1 } else { s.d }, ..s },
    }
}

proof fn lemma_step(s: Abs, ev: Ev)
    requires ainv(s),
    ensures ainv(step(s, ev)),
        ev == Ev::Emit ==> step(s, ev).m == s.n && s.n > s.m && s.n < step(s, ev).d,
        ev != Ev::Emit ==> step(s, ev).m == s.m,
{
    lemma_epoch(s.n, s.d);
    if ev == Ev::Restart && s.d != 0 {
        assert(s.d >= E) by (nonlinear_arith) requires s.d % E == 0, s.d > 0, E == 10000;
    }
}

pub open spec fn run(s: Abs, evs: Seq<Ev>) -> Abs
    decreases evs.len(),
{
    if evs.len() == 0 { s } else { step(run(s, evs.drop_last()), evs.last()) }
}

/// Every schedule of emits, failed stores and restarts keeps the invariant: each number handed out is
/// strictly greater than every number handed out before (this run or earlier) and below the durable epoch.
proof fn lemma_run(s: Abs, evs: Seq<Ev>)
    requires ainv(s),
    ensures ainv(run(s, evs)), run(s, evs).m >= s.m,
    decreases evs.len(),
{
    if evs.len() > 0 {
        lemma_run(s, evs.drop_last());
        lemma_step(run(s, evs.drop_last()), evs.last());
    }
}

proof fn canary_inv_contradictory(n: int, d: int)
    requires inv(n, d), n > 1, n < d,
    ensures false,
{
}

} // verus!

fn main() {}
