// Track V unit `groupctr` (property C12): the Global Group Encrypted Data Message Counter
// reservation arithmetic extracted verbatim from rs-matter/src/transport/session.rs.
//
// T7 (struct projection): `Sessions` is declared here with ONLY the two fields these functions
// touch; the function bodies are verbatim, so a body that started touching another field would no
// longer compile and the unit would be reported undecided, never silently accepted.
// T6: `get_or_init_global_group_data_ctr` (random seed through the `Crypto` trait) is an assumed
// contract here; its contract is discharged on the real body by the Kani harness named below.
use vstd::prelude::*;

verus! {

#[derive(Debug)]
pub struct Error;
pub trait Crypto { }

pub struct Sessions {
    pub global_group_data_ctr: u32,
    pub group_data_ctr_boundary: u32,
}

/// number of distinct counter values: 1 ..= 2^28 - 1 (0 is skipped)
pub spec const N: int = 0x0fff_ffff;

/// machine value at logical position `p`
pub open spec fn val(p: int) -> int { (p % N) + 1 }

/// Refinement: live counter at logical position `l`, in-memory boundary at `b`, covering `[l, b)`.
pub open spec fn repr(s: Sessions, l: int, b: int) -> bool {
    &&& 0 <= l <= b <= l + 1000
    &&& s.global_group_data_ctr as int == val(l)
    &&& s.group_data_ctr_boundary as int == val(b)
}

proof fn lemma_mask(x: u32)
    ensures (x & 0x0fff_ffffu32) as int == (x as int) % 0x1000_0000,
{
    assert((x & 0x0fff_ffffu32) == x % 0x1000_0000u32) by (bit_vector);
}

/// `advance_group_data_ctr(val(p), d)` lands on `val(p + d)`, or one position earlier when the
/// addition crosses the skipped value 0 (the boundary is then 999 instead of 1000 ahead).
proof fn lemma_advance(p: int, d: int, r: int)
    requires 0 <= p, 1 <= d <= 1000,
        r == (if (val(p) + d) % 0x1000_0000 == 0 { 1 } else { (val(p) + d) % 0x1000_0000 }),
    ensures r == val(p + d) || (d >= 2 && r == val(p + d - 1)),
        d == 1 ==> r == val(p + 1),
        1 <= r <= N,
{
    assert((r == (p + d) % N + 1 || (d >= 2 && r == (p + d - 1) % N + 1)) && (d == 1 ==> r == (p + 1) % N + 1) && 1 <= r <= N) by (nonlinear_arith)
        requires 0 <= p, 1 <= d <= 1000, N == 0x0fff_ffff,
            r == (if ((p % N) + 1 + d) % 0x1000_0000 == 0 { 1 } else { ((p % N) + 1 + d) % 0x1000_0000 });
}

proof fn lemma_val_distinct(a: int, b: int)
    requires 0 <= a < b, b - a < N, val(a) == val(b),
    ensures false,
{
    assert(false) by (nonlinear_arith)
        requires 0 <= a < b, b - a < N, (a % N) + 1 == (b % N) + 1, N == 0x0fff_ffff;
}

//@src rs-matter/src/transport/session.rs
//@item const MATTER_MSG_CTR_RANGE
//@item const GROUP_DATA_CTR_EPOCH

impl Sessions {

// assumed contract (T6), discharged on the real body by Kani harness c12_group_ctr_reserve (obligations seed_is_masked_random, reserve_fails_only_without_seed)
#[verifier::external_body]
pub fn get_or_init_global_group_data_ctr<C: Crypto>(&mut self, crypto: C) -> (r: Result<u32, Error>)
    ensures
        r.is_err() ==> *final(self) == *old(self),
        r.is_ok() ==> final(self).global_group_data_ctr != 0,
        old(self).global_group_data_ctr != 0 ==> *final(self) == *old(self),
        (old(self).global_group_data_ctr == 0 && r.is_ok()) ==> (1 <= final(self).global_group_data_ctr <= 0x0fff_ffff
            && final(self).group_data_ctr_boundary == final(self).global_group_data_ctr),
{
    unimplemented!()
}

//@fn Sessions::set_global_group_data_ctr
//@+ ensures final(self).global_group_data_ctr == value, final(self).group_data_ctr_boundary == value,

//@fn Sessions::resume_global_group_data_ctr
//@+ ensures final(self).global_group_data_ctr == (if start == 0 { 1u32 } else { start }),
//@+     final(self).group_data_ctr_boundary == final(self).global_group_data_ctr,
//@+     // resuming AT the durable boundary `d`: live == boundary == d, nothing covered yet
//@+     forall|d: int| 0 <= d && #[trigger] val(d) == start ==> repr(*final(self), d, d),

//@fn Sessions::advance_group_data_ctr ret=r twin=c12_group_ctr_advance
//@+ ensures r as int == (if (value + delta) % 0x1000_0000 == 0 { 1 } else { (value + delta) % 0x1000_0000 }),
//@+     1 <= r <= 0x0fff_ffff,
//@at? after "let next = value.wrapping_add(delta) & MATTER_MSG_CTR_RANGE;"
//@+ proof {
//@+     lemma_mask(value.wrapping_add(delta));
//@+     assert((((value + delta) % 0x1_0000_0000) % 0x1000_0000) == (value + delta) % 0x1000_0000) by (nonlinear_arith) requires value >= 0, delta >= 0;
//@+ }

//@fn Sessions::reserve_global_group_data_ctr ret=r twin=c12_group_ctr_reserve
//@+ ensures
//@+     r.is_err() ==> *final(self) == *old(self),
//@+     // first use: the seed's boundary must be stored before the value is used
//@+     (old(self).global_group_data_ctr == 0 && r.is_ok()) ==> r.unwrap().1.is_some() && 1 <= r.unwrap().0 <= 0x0fff_ffff,
//@+     // refinement of the abstract `reserve` transition for every logical reading of an initialised state
//@+     forall|l: int, b: int| #[trigger] repr(*old(self), l, b) && r.is_ok() ==> {
//@+         let (v, p) = r.unwrap();
//@+         &&& v as int == val(l)
//@+         &&& (l < b ==> p.is_none() && repr(*final(self), l + 1, b))
//@+         &&& (l == b ==> p.is_some() && p.unwrap() == final(self).group_data_ctr_boundary
//@+                && (repr(*final(self), l + 1, l + 1000) || repr(*final(self), l + 1, l + 999)))
//@+     },
//@at? before "let to_persist = if self.global_group_data_ctr == self.group_data_ctr_boundary {"
//@+ proof {
//@+     assert(*self == *old(self) || old(self).global_group_data_ctr == 0);
//@+     assert forall|l: int, b: int| #[trigger] repr(*old(self), l, b) implies ((self.global_group_data_ctr == self.group_data_ctr_boundary) <==> l == b) by {
//@+         if l < b && val(l) == val(b) { lemma_val_distinct(l, b); }
//@+     }
//@+ }
//@at? after "let value = self.global_group_data_ctr;"
//@+ proof {
//@+     assert forall|l: int, b: int| #[trigger] repr(*old(self), l, b) && l == b implies
//@+         (self.group_data_ctr_boundary as int == val(l + 1000) || self.group_data_ctr_boundary as int == val(l + 999)) by {
//@+         lemma_advance(l, 1000, self.group_data_ctr_boundary as int);
//@+     }
//@+ }
//@at? before "Ok((value, to_persist))"
//@+ proof {
//@+     assert forall|l: int, b: int| #[trigger] repr(*old(self), l, b) implies self.global_group_data_ctr as int == val(l + 1) by {
//@+         lemma_advance(l, 1, self.global_group_data_ctr as int);
//@+     }
//@+ }
}

// ---- layer B: reservations, stores and restarts in any order ------------------------------------------

pub struct Abs {
    pub l: int,        // logical position of the live counter (next value to hand out)
    pub b: int,        // in-memory boundary: covers [l, b)
    pub d: int,        // durable boundary
    pub m: int,        // ghost: one past the greatest position put on the wire so far
    pub held: Option<int>,  // a reserved value whose boundary has not been stored yet (must not be sent)
}

pub open spec fn inv(s: Abs) -> bool {
    &&& 0 <= s.m <= s.l <= s.b <= s.l + 1000
    &&& s.m <= s.d <= s.b
    &&& (s.held.is_none() ==> s.d == s.b)
    &&& (s.held.is_some() ==> s.held.unwrap() + 1 == s.l && s.m <= s.held.unwrap())
}

pub enum Ev { Reserve { short: bool }, StoreThenSend, Restart }

pub open spec fn enabled(s: Abs, ev: Ev) -> bool {
    match ev {
        // the caller contract of reserve: one reservation per exchange, resolved before the next
        Ev::Reserve { .. } => s.held.is_none(),
        Ev::StoreThenSend => s.held.is_some(),
        Ev::Restart => true,
    }
}

/// Position put on the wire by this event, if any.
pub open spec fn sent(s: Abs, ev: Ev) -> Option<int> {
    match ev {
        Ev::Reserve { .. } => if s.l < s.b { Some(s.l) } else { None },
        Ev::StoreThenSend => s.held,
        _ => None,
    }
}

pub open spec fn step(s: Abs, ev: Ev) -> Abs {
    match ev {
        Ev::Reserve { short } => if s.l < s.b {
            // covered by the durable boundary: goes on the wire at once
            Abs { l: s.l + 1, m: s.l + 1, ..s }
        } else {
            Abs { l: s.l + 1, b: s.l + (if short { 999int } else { 1000int }), held: Some(s.l), ..s }
        },
        Ev::StoreThenSend => Abs { d: s.b, m: s.l, held: None, ..s },
        Ev::Restart => Abs { l: s.d, b: s.d, held: None, ..s },
    }
}

proof fn lemma_step(s: Abs, ev: Ev)
    requires inv(s), enabled(s, ev),
    ensures inv(step(s, ev)),
        sent(s, ev).is_some() ==> sent(s, ev).unwrap() >= s.m && sent(s, ev).unwrap() < step(s, ev).d && step(s, ev).m == sent(s, ev).unwrap() + 1,
        sent(s, ev).is_none() ==> step(s, ev).m == s.m,
{
}

pub open spec fn run(s: Abs, evs: Seq<Ev>) -> Abs
    decreases evs.len(),
{
    if evs.len() == 0 { s } else { step(run(s, evs.drop_last()), evs.last()) }
}

pub open spec fn all_enabled(s: Abs, evs: Seq<Ev>) -> bool
    decreases evs.len(),
{
    evs.len() == 0 || (all_enabled(s, evs.drop_last()) && enabled(run(s, evs.drop_last()), evs.last()))
}

/// For every schedule: the invariant holds; every position put on the wire is >= the ghost maximum
/// (so strictly greater than every position sent before, in this run or an earlier one) and below
/// the durable boundary at the time it is sent. Values repeat only after N = 2^28 - 1 positions.
proof fn lemma_run(s: Abs, evs: Seq<Ev>)
    requires inv(s), all_enabled(s, evs),
    ensures inv(run(s, evs)), run(s, evs).m >= s.m,
    decreases evs.len(),
{
    if evs.len() > 0 {
        lemma_run(s, evs.drop_last());
        lemma_step(run(s, evs.drop_last()), evs.last());
    }
}

proof fn canary_inv_contradictory(s: Abs)
    requires inv(s), s.held.is_some(),
    ensures false,
{
}

proof fn canary_repr_contradictory(c: Sessions, l: int, b: int)
    requires repr(c, l, b), l < b,
    ensures false,
{
}

} // verus!

fn main() {}
