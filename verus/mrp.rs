// Track V unit `mrp` (property C09): the MRP retransmission budget and back-off arithmetic of
// RetransEntry (rs-matter/src/transport/mrp.rs) extracted verbatim. The back-off is proved EQUAL to the
// protocol's formula with its integer floors spelled out (base*1.1, then *1.6 per retransmission beyond
// the first, plus up to 25 % jitter), overflow-free, monotone in the attempt number and in the jitter.
use vstd::prelude::*;

verus! {

#[derive(Debug)]
pub enum ErrorCode { TxTimeout }
#[derive(Debug)]
pub struct Error { pub code: ErrorCode }
impl vstd::std_specs::convert::FromSpecImpl<ErrorCode> for Error {
    open spec fn obeys_from_spec() -> bool { true }
    open spec fn from_spec(code: ErrorCode) -> Self { Error { code } }
}
impl From<ErrorCode> for Error {
    fn from(code: ErrorCode) -> Self { Error { code } }
}

/// `d` grown by the factor 1.6 (integer floor at every step) `k` times
pub open spec fn grow(d: int, k: nat) -> int
    decreases k,
{
    if k == 0 { d } else { grow(d, (k - 1) as nat) * 16 / 10 }
}

/// The protocol's back-off for the `counter`-th (re)transmission, integer floors spelled out
pub open spec fn backoff(base: int, counter: int, jitter: int) -> int {
    let d = grow(base * 11 / 10, (if counter > 1 { counter - 1 } else { 0 }) as nat);
    d + (d * jitter * 25) / 25500int
}

proof fn lemma_grow_bounds(d: int, k: nat)
    requires d >= 0,
    ensures grow(d, k) >= d, grow(d, k) <= d * pow16(k),
        k > 0 ==> grow(d, k) >= grow(d, (k - 1) as nat),
    decreases k,
{
    if k > 0 {
        lemma_grow_bounds(d, (k - 1) as nat);
        let g = grow(d, (k - 1) as nat);
        assert(g * 16 / 10 >= g && g * 16 / 10 <= g * 16) by (nonlinear_arith) requires g >= 0;
        assert(g * 16 <= d * pow16((k - 1) as nat) * 16) by (nonlinear_arith) requires g <= d * pow16((k - 1) as nat);
        assert(d * pow16((k - 1) as nat) * 16 == d * pow16(k)) by (nonlinear_arith) requires pow16(k) == pow16((k - 1) as nat) * 16;
    } else {
        assert(d * 1 == d);
    }
}

pub open spec fn pow16(k: nat) -> int
    decreases k,
{
    if k == 0 { 1 } else { pow16((k - 1) as nat) * 16 }
}

proof fn lemma_pow16_5()
    ensures pow16(0) == 1, pow16(1) == 16, pow16(2) == 256, pow16(3) == 4096, pow16(4) == 65536, pow16(5) == 1048576,
{
    reveal_with_fuel(pow16, 6);
}

/// monotone in the attempt number ("retransmissions are never sent earlier than the back-off": later attempts wait at least as long)
proof fn lemma_backoff_monotone_counter(base: int, c: int, j: int)
    requires base >= 0, c >= 0, 0 <= j <= 255,
    ensures backoff(base, c + 1, j) >= backoff(base, c, j),
{
    let d0 = base * 11 / 10;
    assert(d0 >= 0) by (nonlinear_arith) requires base >= 0, d0 == base * 11 / 10;
    let k1 = (if c > 1 { c - 1 } else { 0 }) as nat;
    let k2 = (if c + 1 > 1 { c } else { 0 }) as nat;
    lemma_grow_bounds(d0, k1);
    lemma_grow_bounds(d0, k2);
    let a = grow(d0, k1);
    let b = grow(d0, k2);
    assert(b >= a);
    assert(b + (b * j * 25) / 25500int >= a + (a * j * 25) / 25500int) by (nonlinear_arith) requires b >= a, a >= 0, j >= 0;
}

/// monotone in the jitter, and never below the jitter-free back-off
proof fn lemma_backoff_monotone_jitter(base: int, c: int, j1: int, j2: int)
    requires base >= 0, c >= 0, 0 <= j1 <= j2 <= 255,
    ensures backoff(base, c, j2) >= backoff(base, c, j1), backoff(base, c, j1) >= backoff(base, c, 0),
        backoff(base, c, 0) >= base * 11 / 10,
{
    let d0 = base * 11 / 10;
    assert(d0 >= 0) by (nonlinear_arith) requires base >= 0, d0 == base * 11 / 10;
    let k = (if c > 1 { c - 1 } else { 0 }) as nat;
    lemma_grow_bounds(d0, k);
    let d = grow(d0, k);
    assert((d * j2 * 25) / 25500int >= (d * j1 * 25) / 25500int && (d * j1 * 25) / 25500int >= 0 && (d * 0 * 25) / 25500int == 0) by (nonlinear_arith)
        requires d >= 0, 0 <= j1 <= j2;
}

//@src rs-matter/src/transport/mrp.rs
//@item const MRP_MAX_TRANSMISSIONS
//@item const MRP_BACKOFF_THRESHOLD
//@item const MRP_BACKOFF_BASE
//@item const MRP_BACKOFF_JITTER
//@item const MRP_BACKOFF_MARGIN
//@item const MRP_JITTER_RAND_MAX
//@item struct RetransEntry
//@subst "panic!(\"Previous retrans entry for this exchange already exists\");" "assert(false); vstd::pervasive::unreached()"
//@subst "for _ in 0..counter - MRP_BACKOFF_THRESHOLD" "for i in 0..counter - MRP_BACKOFF_THRESHOLD"

impl RetransEntry {
//@fn RetransEntry::get_msg_ctr ret=r
//@+ ensures r == self.msg_ctr,

//@fn RetransEntry::pre_send ret=r twin=c09_retrans_pre_send
//@+ requires ctr == old(self).msg_ctr,   // call-site precondition (Session::pre_send; proved by Kani harness c09_session_pre_send): otherwise the real code panics
//@+ ensures
//@+     r.is_ok() <==> old(self).counter < 5,
//@+     r.is_ok() ==> final(self).counter == old(self).counter + 1,
//@+     r.is_err() ==> final(self).counter == old(self).counter && r.unwrap_err().code is TxTimeout,
//@+     final(self).msg_ctr == old(self).msg_ctr, final(self).base_delay_interval_ms == old(self).base_delay_interval_ms,

//@fn RetransEntry::backoff_ms ret=r
//@+ requires counter <= 6,   // horizon: MRP_MAX_TRANSMISSIONS = 5 attempts (+1); the proof of "no u64 overflow" is for this range
//@+ ensures r as int == backoff(base_interval_ms as int, counter as int, jitter_rand as int),
//@at after "let mut delay = base_interval_ms as u64 * MRP_BACKOFF_MARGIN.0 / MRP_BACKOFF_MARGIN.1;"
//@+ let ghost d0 = delay as int;
//@+ proof { assert(d0 == base_interval_ms as int * 11 / 10); }
//@loop "for i in 0..counter - MRP_BACKOFF_THRESHOLD"
//@+ invariant counter <= 6, counter > 1, 0 <= d0 <= 0x1_2000_0000, delay as int == grow(d0, i as nat),
//@at before "delay = delay * MRP_BACKOFF_BASE.0 / MRP_BACKOFF_BASE.1;"
//@+ proof { lemma_grow_small(d0, i as nat); lemma_grow_small(d0, (i + 1) as nat); }
//@at before "delay + (delay * jitter_rand as u64 * MRP_BACKOFF_JITTER.0) / (255 * MRP_BACKOFF_JITTER.1)"
//@+ proof {
//@+     let k = (if counter > 1 { counter - 1 } else { 0 }) as nat;
//@+     lemma_grow_small(d0, k);
//@+     assert(delay as int == grow(d0, k));
//@+     assert(delay * jitter_rand as u64 * 25 <= 0x10_0000_0000 * 255 * 25) by (nonlinear_arith) requires jitter_rand <= 255, 0 <= delay <= 0x10_0000_0000;
//@+ }

//@fn RetransEntry::retransmission_timeout_ms ret=r
//@+ ensures r as int == ladder(active_interval_ms as int, idle_interval_ms as int, active_threshold_ms as int, active_only, 5),
//@+     r < 0x100_0000_0000,   // the whole ladder stays far below u64::MAX (contract assumed by the Kani harness of Session::rx_timeout_ms)
//@loop "for counter in 0..MRP_MAX_TRANSMISSIONS"
//@+ invariant timeout as int == ladder(active_interval_ms as int, idle_interval_ms as int, active_threshold_ms as int, active_only, counter as nat),
//@+     timeout as int <= counter * 0x20_0000_0000,
//@at before "timeout += Self::backoff_ms(base_interval_ms, counter, MRP_JITTER_RAND_MAX);"
//@+ proof { lemma_backoff_small(base_interval_ms as int, counter as int); reveal_with_fuel(ladder, 2); }

//@fn RetransEntry::delay_ms_counter ret=r
//@+ requires counter <= 6,
//@+ ensures r as int == backoff(self.base_delay_interval_ms as int, counter as int, jitter_rand as int),

//@fn RetransEntry::delay_ms ret=r
//@+ requires self.counter <= 6,
//@+ ensures r as int == backoff(self.base_delay_interval_ms as int, self.counter as int, jitter_rand as int),
}

/// The sender's whole retry ladder with maximum jitter: attempt `c` waits `backoff(base_c, c, 255)`, where the base is the
/// active interval while the time spent so far is below the active threshold (or always, if `active_only`), else the idle one.
pub open spec fn ladder(active: int, idle: int, threshold: int, active_only: bool, n: nat) -> int
    decreases n,
{
    if n == 0 { 0 } else {
        let t = ladder(active, idle, threshold, active_only, (n - 1) as nat);
        let base = if active_only || t < threshold { active } else { idle };
        t + backoff(base, n - 1, 255)
    }
}

proof fn lemma_backoff_small(base: int, c: int)
    requires 0 <= base <= 0xffff_ffff, 0 <= c <= 5,
    ensures 0 <= backoff(base, c, 255) <= 0x20_0000_0000,
{
    let d0 = base * 11 / 10;
    let k = (if c > 1 { c - 1 } else { 0 }) as nat;
    lemma_grow_small(d0, k);
    let d = grow(d0, k);
    assert((d * 255 * 25) / 25500int <= d && (d * 255 * 25) / 25500int >= 0) by (nonlinear_arith) requires d >= 0;
}

/// within the horizon (at most 5 growth steps) the delay stays below 2^36: no u64 overflow anywhere in backoff_ms
proof fn lemma_grow_small(d: int, k: nat)
    requires 0 <= d <= 0x1_2000_0000, k <= 5,
    ensures 0 <= grow(d, k) <= 0x10_0000_0000, grow(d, k) * 16 <= 0xffff_ffff_ffff_ffff,
{
    reveal_with_fuel(grow, 7);
}

} // verus!

fn main() {}
