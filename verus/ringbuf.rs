// Track V unit `ringbuf` (property C18): RingBuf (rs-matter/src/utils/storage/ringbuf.rs), the byte
// queue under the BTP receive window, verified for EVERY capacity N > 0 and every input length
// against an abstract queue view: push appends (dropping the oldest bytes beyond capacity), pop
// removes exactly the oldest bytes in order, len/free/is_full/is_empty report the view.
//
// T6 (assumed interfaces, listed in the evidence):
//  * the storage `crate::utils::storage::Vec<u8, N>` is an external type `Store<N>` with a sequence
//    view; `resize_default(N)` succeeds and yields length N;
//  * the two slice-copy statements `dst[a..a+len].copy_from_slice(&src[b..b+len])` and the indexed
//    store `self.buf[i] = v` are substituted by specified primitives `copy_in` / `copy_out` / `set`
//    that carry the SAME bounds obligations (a+len <= dst.len(), b+len <= src.len(), i < len) and the
//    obvious effect;
//  * `core::cmp::min` on usize is substituted by a verified `min_usize`.
use vstd::prelude::*;

verus! {

#[verifier::external_body]
pub struct Store<const N: usize> { _p: [u8; 0] }

impl<const N: usize> Store<N> {
    pub uninterp spec fn view(&self) -> Seq<u8>;

    #[verifier::external_body]
    pub const fn new() -> (r: Self) ensures r.view().len() == 0 { unimplemented!() }

    #[verifier::external_body]
    pub fn len(&self) -> (r: usize) ensures r == self.view().len() { unimplemented!() }

    #[verifier::external_body]
    pub fn resize_default(&mut self, n: usize) -> (r: Result<(), ()>)
        ensures n <= N ==> r.is_ok(),
            r.is_ok() ==> final(self).view().len() == n
                && forall|i: int| 0 <= i < n && i < old(self).view().len() ==> final(self).view()[i] == old(self).view()[i],
    { unimplemented!() }

    #[verifier::external_body]
    pub fn copy_in(&mut self, at: usize, data: &[u8], off: usize, len: usize)
        requires at + len <= old(self).view().len(), off + len <= data@.len(),
        ensures final(self).view().len() == old(self).view().len(),
            forall|i: int| 0 <= i < final(self).view().len() ==> final(self).view()[i] ==
                (if at <= i < at + len { data@[off + (i - at)] } else { old(self).view()[i] }),
    { unimplemented!() }

    #[verifier::external_body]
    pub fn copy_out(&self, at: usize, out: &mut [u8], off: usize, len: usize)
        requires at + len <= self.view().len(), off + len <= old(out)@.len(),
        ensures final(out)@.len() == old(out)@.len(),
            forall|i: int| 0 <= i < final(out)@.len() ==> final(out)@[i] ==
                (if off <= i < off + len { self.view()[at + (i - off)] } else { old(out)@[i] }),
    { unimplemented!() }

    #[verifier::external_body]
    pub fn set(&mut self, at: usize, v: u8)
        requires at < old(self).view().len(),
        ensures final(self).view() == old(self).view().update(at as int, v),
    { unimplemented!() }
}

pub fn min_usize(a: usize, b: usize) -> (r: usize)
    ensures r == (if a <= b { a } else { b }),
{
    if a <= b { a } else { b }
}

pub struct RingBuf<const N: usize> {
    pub buf: Store<N>,
    pub start: usize,
    pub end: usize,
    pub non_empty: bool,
}

impl<const N: usize> RingBuf<N> {
    /// representation invariant
    pub open spec fn wf(&self) -> bool {
        &&& 0 < N <= 0x7fff_ffff   // horizon: `buf.len() + end` must not overflow usize (any real capacity is far below)
        &&& (self.buf.view().len() == 0 || self.buf.view().len() == N)
        &&& (self.buf.view().len() == 0 ==> self.start == 0 && self.end == 0 && !self.non_empty)
        &&& (self.buf.view().len() == N ==> self.start < N && self.end < N)
        &&& (!self.non_empty ==> self.start == self.end)
    }

    /// abstract view: the queued bytes, oldest first
    pub open spec fn q(&self) -> Seq<u8> {
        if !self.non_empty {
            Seq::empty()
        } else if self.start < self.end {
            self.buf.view().subrange(self.start as int, self.end as int)
        } else {
            self.buf.view().subrange(self.start as int, self.buf.view().len() as int) + self.buf.view().subrange(0, self.end as int)
        }
    }
}

/// the last (at most) `n` elements
pub open spec fn last_n(s: Seq<u8>, n: int) -> Seq<u8> {
    if s.len() <= n { s } else { s.subrange(s.len() - n, s.len() as int) }
}

proof fn lemma_last_n_append(x: Seq<u8>, c: Seq<u8>, n: int)
    requires n > 0,
    ensures last_n(x + c, n) =~= last_n(last_n(x, n) + c, n),
{
}

/// effect of one iteration of `push` on the abstract queue
proof fn lemma_push_chunk<const N: usize>(pre: RingBuf<N>, post: RingBuf<N>, chunk: Seq<u8>)
    requires
        pre.wf(), pre.buf.view().len() == N, 1 <= chunk.len() <= N - pre.end,
        post.buf.view().len() == N,
        forall|i: int| 0 <= i < N ==> post.buf.view()[i] == (if pre.end <= i < pre.end + chunk.len() { chunk[i - pre.end] } else { pre.buf.view()[i] }),
        post.non_empty,
        post.end == (if pre.end + chunk.len() == N { 0 } else { pre.end + chunk.len() }),
        post.start == ({
            let e2 = pre.end + chunk.len();
            let s2 = if pre.non_empty && pre.start >= pre.end && pre.start < e2 { e2 } else { pre.start as int };
            if s2 == N { 0 } else { s2 }
        }),
    ensures post.wf(), post.q() =~= last_n(pre.q() + chunk, N as int),
{
}

/// effect of one iteration of `pop` on the abstract queue
proof fn lemma_pop_chunk<const N: usize>(pre: RingBuf<N>, post: RingBuf<N>, k: int)
    requires
        pre.wf(), pre.non_empty, pre.buf.view().len() == N,
        1 <= k <= (if pre.start < pre.end { pre.end as int } else { N as int }) - pre.start,
        post.buf == pre.buf, post.end == pre.end,
        post.start == (if pre.start + k == N { 0 } else { pre.start + k }),
        post.non_empty == (post.start != post.end),
    ensures post.wf(), pre.q().len() >= k,
        pre.q().subrange(0, k) =~= pre.buf.view().subrange(pre.start as int, pre.start + k),
        post.q() =~= pre.q().subrange(k, pre.q().len() as int),
{
}

//@src rs-matter/src/utils/storage/ringbuf.rs
//@subst "self.buf[self.end..self.end + len].copy_from_slice(&data[offset..offset + len]);" "self.buf.copy_in(self.end, data, offset, len);"
//@subst "out_buf[offset..offset + len].copy_from_slice(&self.buf[self.start..self.start + len]);" "self.buf.copy_out(self.start, out_buf, offset, len);"
//@subst "self.buf[self.end] = data;" "self.buf.set(self.end, data);"
//@subst "min(" "min_usize("
//@subst "crate::utils::storage::Vec::new()" "Store::new()"

impl<const N: usize> RingBuf<N> {
//@fn RingBuf::new ret=r
//@+ requires 0 < N <= 0x7fff_ffff,
//@+ ensures r.wf(), r.q().len() == 0,

//@fn RingBuf::wrap
//@+ requires old(self).buf.view().len() == N, N > 0, old(self).start <= N, old(self).end <= N,
//@+ ensures final(self).buf == old(self).buf, final(self).non_empty == old(self).non_empty,
//@+     final(self).start == (if old(self).start == N { 0 } else { old(self).start }),
//@+     final(self).end == (if old(self).end == N { 0 } else { old(self).end }),

//@fn RingBuf::len ret=r
//@+ requires self.wf(),
//@+ ensures r == self.q().len(), r <= N,

//@fn RingBuf::free ret=r
//@+ requires self.wf(),
//@+ ensures r == N - self.q().len(),

//@fn RingBuf::is_full ret=r
//@+ requires self.wf(), self.buf.view().len() == N,
//@+ ensures r == (self.q().len() == N),

//@fn RingBuf::is_empty ret=r
//@+ requires self.wf(),
//@+ ensures r == (self.q().len() == 0),

//@fn RingBuf::clear
//@+ requires old(self).wf(),
//@+ ensures final(self).wf(), final(self).q().len() == 0,

//@fn RingBuf::push ret=r
//@+ requires old(self).wf(),
//@+ ensures final(self).wf(), final(self).q() =~= last_n(old(self).q() + data@, N as int), r == final(self).q().len(),
//@loop "while offset < data.len()"
//@+ invariant self.wf(), self.buf.view().len() == N, 0 <= offset <= data.len(),
//@+     self.q() =~= last_n(old(self).q() + data@.subrange(0, offset as int), N as int),
//@+ decreases data.len() - offset,
//@at before "let len = min_usize(self.buf.len() - self.end, data.len() - offset);"
//@+ let ghost pre = *self;
//@+ let ghost off0 = offset as int;
//@at after "self.non_empty = true;"
//@+ proof {
//@+     let chunk = data@.subrange(off0, offset as int);
//@+     lemma_push_chunk::<N>(pre, *self, chunk);
//@+     let x = old(self).q() + data@.subrange(0, off0);
//@+     lemma_last_n_append(x, chunk, N as int);
//@+     assert(data@.subrange(0, offset as int) =~= data@.subrange(0, off0) + chunk);
//@+     assert(old(self).q() + data@.subrange(0, offset as int) =~= x + chunk);
//@+ }

//@fn RingBuf::push_byte ret=r
//@+ requires old(self).wf(),
//@+ ensures final(self).wf(), final(self).q() =~= last_n(old(self).q().push(data), N as int), r == final(self).q().len(),
//@at before "self.buf.set(self.end, data);"
//@+ let ghost pre = *self;
//@at after "self.non_empty = true;"
//@+ proof {
//@+     lemma_push_chunk::<N>(pre, *self, seq![data]);
//@+     assert(old(self).q().push(data) =~= old(self).q() + seq![data]);
//@+     assert(pre.q() =~= old(self).q());
//@+ }

//@fn RingBuf::pop ret=r
//@+ requires old(self).wf(),
//@+ ensures final(self).wf(), r <= old(out_buf)@.len(), r <= old(self).q().len(),
//@+     r == (if old(out_buf)@.len() <= old(self).q().len() { old(out_buf)@.len() } else { old(self).q().len() }),
//@+     final(out_buf)@.len() == old(out_buf)@.len(),
//@+     final(out_buf)@.subrange(0, r as int) =~= old(self).q().subrange(0, r as int),
//@+     final(self).q() =~= old(self).q().subrange(r as int, old(self).q().len() as int),
//@loop "while offset < out_buf.len() && self.non_empty"
//@+ invariant self.wf(), 0 <= offset <= out_buf@.len(), out_buf@.len() == old(out_buf)@.len(), offset <= old(self).q().len(),
//@+     out_buf@.subrange(0, offset as int) =~= old(self).q().subrange(0, offset as int),
//@+     self.q() =~= old(self).q().subrange(offset as int, old(self).q().len() as int),
//@+ decreases out_buf@.len() - offset,
//@at before "let len = min_usize("
//@+ let ghost pre = *self;
//@+ let ghost off0 = offset as int;
//@+ let ghost out0 = out_buf@;
//@at before "offset += len;"
//@+ proof {
//@+     lemma_pop_chunk::<N>(pre, *self, len as int);
//@+     assert(out_buf@.subrange(0, off0 + len) =~= out0.subrange(0, off0) + pre.buf.view().subrange(pre.start as int, pre.start + len));
//@+ }
}

proof fn canary_wf_contradictory<const N: usize>(b: RingBuf<N>)
    requires b.wf(), b.non_empty, b.start > b.end,
    ensures false,
{
}

} // verus!

fn main() {}
