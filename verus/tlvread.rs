// Track V unit `tlvread` (property C16): the navigation core of the TLV reader - TLVSequence in
// rs-matter/src/tlv/read.rs plus the control/tag/type helpers of rs-matter/src/tlv.rs - extracted
// verbatim and verified for byte slices of ANY length: no panic, no arithmetic overflow, no
// out-of-range access, every returned slice is a sub-range of the input, every loop terminates.
//
// T6 (assumed interfaces, each listed in the evidence):
//  * `ErrorCode`/`Error`: projection to the two codes used here, `From<ErrorCode> for Error`.
//  * `TLVControl::parse`: total, any result (FromPrimitive derive; proved for all 256 bytes by Kani).
//  * `TLVSequence::value_len`: assumed contract (length-field decoding through `try_into` +
//    `from_le_bytes` is outside Verus' std coverage); discharged on the real body by its Kani twin.
//  * derived `Clone` of TLVSequence returns an equal value; `Self::EMPTY` is the empty slice.
use vstd::prelude::*;

verus! {

#[derive(Debug)]
pub enum ErrorCode { TLVTypeMismatch, InvalidData }
#[derive(Debug)]
pub struct Error { pub code: ErrorCode }
impl vstd::std_specs::convert::FromSpecImpl<ErrorCode> for Error {
    open spec fn obeys_from_spec() -> bool { true }
    open spec fn from_spec(code: ErrorCode) -> Self { Error { code } }
}
impl From<ErrorCode> for Error {
    fn from(code: ErrorCode) -> Self { Error { code } }
}

//@src rs-matter/src/tlv.rs
//@item enum TLVTagType
//@item enum TLVValueType
//@item struct TLVControl

impl TLVTagType {
//@fn TLVTagType::size ret=r
//@+ ensures r <= 8, r == tag_size(*self),
}

pub open spec fn tag_size(t: TLVTagType) -> usize {
    match t {
        TLVTagType::Anonymous => 0,
        TLVTagType::Context => 1,
        TLVTagType::CommonPrf16 => 2,
        TLVTagType::CommonPrf32 => 4,
        TLVTagType::ImplPrf16 => 2,
        TLVTagType::ImplPrf32 => 4,
        TLVTagType::FullQual48 => 6,
        TLVTagType::FullQual64 => 8,
    }
}

pub open spec fn is_var(v: TLVValueType) -> bool {
    v is Utf8l || v is Utf16l || v is Utf32l || v is Utf64l || v is Str8l || v is Str16l || v is Str32l || v is Str64l
}

pub open spec fn var_len(v: TLVValueType) -> usize {
    if v is Utf8l || v is Str8l { 1 } else if v is Utf16l || v is Str16l { 2 } else if v is Utf32l || v is Str32l { 4 }
    else if v is Utf64l || v is Str64l { 8 } else { 0 }
}

pub open spec fn is_cont(v: TLVValueType) -> bool { v is Struct || v is Array || v is List || v is EndCnt }

impl TLVValueType {
//@fn TLVValueType::fixed_size ret=r
//@+ ensures r.is_none() == is_var(*self), r.is_some() ==> r.unwrap() <= 8,
//@+     is_cont(*self) ==> r == Some(0usize),
//@fn TLVValueType::variable_size_len ret=r
//@+ ensures r == var_len(*self), r <= 8, !is_var(*self) ==> r == 0,
//@fn TLVValueType::is_container_start ret=r
//@+ ensures r == (*self is Struct || *self is Array || *self is List),
//@fn TLVValueType::is_container_end ret=r
//@+ ensures r == (*self is EndCnt),
//@fn TLVValueType::is_container ret=r
//@+ ensures r == is_cont(*self),
}

impl TLVControl {
    // assumed (T6): total function; which control bytes are valid is decided by the Kani harness over all 256 values
    #[verifier::external_body]
    pub fn parse(control: u8) -> (r: Result<Self, Error>) { unimplemented!() }

//@fn TLVControl::is_container_end ret=r
//@+ ensures r ==> self.value_type is EndCnt,
//@fn TLVControl::confirm_container_end ret=r
//@+ ensures r.is_ok() ==> self.value_type is EndCnt,
}

/// `r` is the sub-range of `s` starting at `off`
pub open spec fn is_sub(r: Seq<u8>, s: Seq<u8>, off: int) -> bool {
    &&& 0 <= off && off + r.len() <= s.len()
    &&& forall|i: int| 0 <= i < r.len() ==> r[i] == s[off + i]
}

pub open spec fn is_suffix(r: Seq<u8>, s: Seq<u8>) -> bool { is_sub(r, s, s.len() - r.len()) }

/// header size of an element: control byte + tag + length field
pub open spec fn hdr(c: TLVControl) -> int { 1 + tag_size(c.tag_type) + var_len(c.value_type) }

// T4/T6: TLVSequence / TLVElement declared here (derived Clone replaced by its specification)
pub struct TLVSequence<'a>(pub &'a [u8]);
impl<'a> Clone for TLVSequence<'a> {
    #[verifier::external_body]
    fn clone(&self) -> (r: Self) ensures r == *self { TLVSequence(self.0) }
}
pub struct TLVElement<'a>(pub TLVSequence<'a>);

//@src rs-matter/src/tlv/read.rs
//@subst "Self::EMPTY" "Self::empty_seq()"
//@subst "TLVElement::new(self.0)" "TLVElement(TLVSequence(self.0))"

impl<'a> TLVSequence<'a> {
    #[verifier::external_body]
    pub const fn empty_seq() -> (r: Self) ensures r.0@.len() == 0 { Self(&[]) }

    // assumed contract (T6), discharged on the real body by Kani harness c16_value_len_contract
    #[verifier::external_body]
    pub fn value_len(&self, control: TLVControl) -> (r: Result<usize, Error>)
        requires self.0@.len() >= 1,
        ensures
            (r.is_ok() && !is_var(control.value_type)) ==> r.unwrap() <= 8,
            (r.is_ok() && is_cont(control.value_type)) ==> r.unwrap() == 0,
            (r.is_ok() && is_var(control.value_type)) ==> self.0@.len() >= hdr(control),
    { unimplemented!() }

//@fn TLVSequence::control ret=r
//@+ ensures r.is_ok() ==> self.0@.len() >= 1,

//@fn TLVSequence::tag_start ret=r
//@+ ensures r.is_ok() == (self.0@.len() >= 1),
//@+     r.is_ok() ==> r.unwrap()@ == self.0@.skip(1),

//@fn TLVSequence::tag ret=r
//@+ ensures r.is_ok() ==> self.0@.len() >= 1 + tag_size(tag_type) && r.unwrap()@ == self.0@.subrange(1, 1 + tag_size(tag_type)),

//@fn TLVSequence::value_len_start ret=r
//@+ requires self.0@.len() >= 1,   // the real code unwrap!()s tag_start(): callers must have seen a control byte
//@+ ensures r.is_ok() ==> self.0@.len() >= 1 + tag_size(tag_type) && r.unwrap()@ == self.0@.skip(1 + tag_size(tag_type)),

//@fn TLVSequence::value_start ret=r
//@+ requires self.0@.len() >= 1,
//@+ ensures r.is_ok() ==> self.0@.len() >= hdr(control) && r.unwrap()@ == self.0@.skip(hdr(control)),

//@fn TLVSequence::value ret=r
//@+ requires self.0@.len() >= 1,
//@+ ensures r.is_ok() ==> is_sub(r.unwrap()@, self.0@, hdr(control)),

//@fn TLVSequence::next_start ret=r
//@+ requires self.0@.len() >= 1,
//@+ ensures r.is_ok() ==> is_suffix(r.unwrap()@, self.0@) && r.unwrap()@.len() + hdr(control) <= self.0@.len(),

//@fn TLVSequence::next_enter ret=r
//@+ ensures
//@+     r.is_ok() ==> is_suffix(r.unwrap().0@, self.0@),
//@+     // progress: a non-empty sequence gets strictly shorter (the measure of every consuming loop)
//@+     (r.is_ok() && self.0@.len() > 0) ==> r.unwrap().0@.len() < self.0@.len(),

//@fn TLVSequence::len ret=r
//@+ ensures r.is_ok() ==> r.unwrap() >= 1,

//@fn TLVSequence::container_value_len ret=r
//@+ requires 1 <= self.0@.len() < 0x7fff_ffff,   // horizon: a TLV buffer of 2 GiB or more is out of scope (stated, not hidden)
//@loop "while level > 0"
//@+ invariant 1 <= next.0@.len() <= self.0@.len() < 0x7fff_ffff, level >= 0,
//@+     level <= 1 + (self.0@.len() - next.0@.len()),
//@+ decreases next.0@.len(),

//@fn TLVSequence::container_len ret=r
//@+ requires self.0@.len() < 0x7fff_ffff,
//@+ ensures r.is_ok() ==> r.unwrap() >= 1,

//@fn TLVSequence::container_value ret=r
//@+ requires 1 <= self.0@.len() < 0x7fff_ffff,
//@+ ensures r.is_ok() ==> is_sub(r.unwrap()@, self.0@, hdr(control)),

//@fn TLVSequence::container_next ret=r
//@+ requires self.0@.len() < 0x7fff_ffff,
//@+ ensures r.is_ok() ==> r.unwrap().0@.len() <= self.0@.len(),
//@loop "while level > 0"
//@+ invariant next.0@.len() <= self.0@.len() < 0x7fff_ffff, level >= 0,
//@+     level <= self.0@.len() - next.0@.len(),
//@+ decreases next.0@.len(),

//@fn TLVSequence::current ret=r
//@+ ensures r.is_ok() ==> (r.unwrap().0.0@.len() == 0 || r.unwrap().0.0@ == self.0@),
}

} // verus!

fn main() {}
